"""Generic analyses over MIR facts: awaits (G2), guards / control conditions (G3), variant constraints (G4),
backward slices (G5), closure plumbing, event-constructor summaries (G8), suspension-free cycles (G10)."""
import re
from collections import defaultdict, deque

from .mir import (Site, Unverifiable, callee_is, callee_path, const_int, const_str, fmt_span, op_const, op_fn,
                  op_local, op_place, place_fields, place_str, rvalue_operands, rvalue_places)

NESTED_KINDS = ("Closure", "SyntheticCoroutineBody", "InlineConst", "AnonConst")


# --------------------------------------------------------------------------------------------------
# canonical access paths
# --------------------------------------------------------------------------------------------------

def canon_place(body, pl, depth=0):
    """Rewrite a place so that its base is a user variable / argument where possible:
    `_125.*@Continue.0` with `_125 = &mut _31`  ->  `_31@Continue.0`;  `_7` with `_7 = move _2@Hook.1` -> `_2@Hook.1`.
    Only single-definition temporaries are substituted."""
    if depth > 12:
        return pl
    sd = body.single_def(pl["l"])
    if sd is None:
        return pl
    site, kind, payload = sd
    if kind != "assign":
        return pl
    rv = payload["rv"]
    proj = list(pl["p"])
    if rv["k"] == "ref":
        if proj and proj[0] == "*":
            new = {"l": rv["pl"]["l"], "p": list(rv["pl"]["p"]) + proj[1:]}
            return canon_place(body, new, depth + 1)
        return pl
    if rv["k"] == "use":
        src = op_place(rv["op"])
        if src is not None:
            new = {"l": src["l"], "p": list(src["p"]) + proj}
            return canon_place(body, new, depth + 1)
    if rv["k"] == "cast" and rv["kind"].startswith("PointerCoercion"):
        src = op_place(rv["op"])
        if src is not None:
            new = {"l": src["l"], "p": list(src["p"]) + proj}
            return canon_place(body, new, depth + 1)
    if rv["k"] == "agg" and rv.get("agg") == "tuple" and proj and isinstance(proj[0], dict) and "f" in proj[0]:
        # `(a, &mut b).1` is `&mut b`: a tuple built only to be matched on
        i = proj[0]["f"]
        if isinstance(i, int) and i < len(rv["ops"]):
            src = op_place(rv["ops"][i])
            if src is not None:
                new = {"l": src["l"], "p": list(src["p"]) + proj[1:]}
                return canon_place(body, new, depth + 1)
    return pl


def canon_str(body, pl):
    return place_str(canon_place(body, pl))


# --------------------------------------------------------------------------------------------------
# G2: awaits
# --------------------------------------------------------------------------------------------------

class Await:
    def __init__(self, body, into_site, src_op, awaitee_local, poll_site, poll_term, ready_bb, pending_bb, yield_bb,
                 resume_bb, switch_bb):
        self.body = body
        self.into_site = into_site
        self.src_op = src_op  # operand passed to into_future
        self.awaitee = awaitee_local
        self.poll_site = poll_site
        self.poll_term = poll_term
        self.ready_bb = ready_bb
        self.pending_bb = pending_bb
        self.yield_bb = yield_bb
        self.resume_bb = resume_bb
        self.switch_bb = switch_bb

    @property
    def fut_type(self):
        return self.body.locals[self.awaitee]

    @property
    def poll_resolved(self):
        f = op_fn(self.poll_term["func"])
        return (f.get("res") or "") if f else ""

    @property
    def poll_self(self):
        f = op_fn(self.poll_term["func"])
        return f.get("self", "") if f else ""

    @property
    def loc(self):
        return self.poll_site.loc

    def __repr__(self):
        return f"<Await {self.body.short} bb{self.poll_site.bb} {self.fut_type[:60]} @{self.loc}>"


def awaits(body):
    """Recognise every `.await`: into_future(x) -> loop { poll -> switch Poll {Ready->.., Pending->yield} }."""
    key = "awaits"
    if key in body._reach_cache:
        return body._reach_cache[key]
    out = []
    for site, t in body.calls(lambda t: callee_is(t, r"Future::poll$", r"future::Future::poll$")):
        # the block after poll switches on discriminant of the Poll
        nb = t["t"]
        if nb < 0:
            continue
        blk = body.blocks[nb]
        sw = blk["term"]
        if sw["k"] != "switch":
            continue
        ready = pending = None
        for v, tgt in sw["targets"]:
            if v == 0:
                ready = tgt
            elif v == 1:
                pending = tgt
        if pending is None:
            pending = sw["otherwise"]
        if ready is None:
            ready = sw["otherwise"]
        # find the yield reachable from pending within a few gotos/drops
        yb = None
        cur = pending
        for _ in range(8):
            tt = body.blocks[cur]["term"]
            if tt["k"] == "yield":
                yb = cur
                break
            ss = body.succ[cur]
            if len(ss) != 1:
                break
            cur = ss[0]
        if yb is None:
            continue
        resume = body.blocks[yb]["term"]["resume"]
        # awaitee: poll's first arg is Pin<&mut awaitee> built by new_unchecked(&mut *(&mut awaitee))
        aw_local = None
        a0 = op_place(t["args"][0])
        if a0 is not None:
            cp = _trace_ref_base(body, a0["l"])
            aw_local = cp
        # into_future site: the def of the awaitee local: `_46 = move _39` where _39 = into_future(x)
        into_site, src_op = None, None
        if aw_local is not None:
            cur_l = aw_local
            for _ in range(4):
                sd = body.single_def(cur_l)
                if sd is None:
                    break
                s, kind, payload = sd
                if kind == "assign" and payload["rv"]["k"] == "use" and op_local(payload["rv"]["op"]) is not None:
                    cur_l = op_local(payload["rv"]["op"])
                    continue
                if kind == "call" and callee_is(payload, r"IntoFuture::into_future$"):
                    into_site, src_op = s, payload["args"][0]
                break
        out.append(Await(body, into_site, src_op, aw_local, site, t, ready, pending, yb, resume, nb))
    body._reach_cache[key] = out
    return out


def _trace_ref_base(body, local, depth=0):
    """Follow `_a = Pin::new_unchecked(_b)`, `_b = &mut *_c`, `_c = &mut _d` down to the borrowed local."""
    if depth > 8:
        return local
    sd = body.single_def(local)
    if sd is None:
        return local
    s, kind, payload = sd
    if kind == "call" and callee_is(payload, r"Pin::<.*>::new_unchecked$", r"pin::Pin.*new_unchecked$", r"new_unchecked$"):
        l = op_local(payload["args"][0])
        if l is not None:
            return _trace_ref_base(body, l, depth + 1)
    if kind == "assign":
        rv = payload["rv"]
        if rv["k"] == "ref":
            base = rv["pl"]
            if all(e == "*" for e in base["p"]):
                if base["p"]:
                    return _trace_ref_base(body, base["l"], depth + 1)
                return base["l"]
        if rv["k"] == "use" and op_local(rv["op"]) is not None:
            return _trace_ref_base(body, op_local(rv["op"]), depth + 1)
    return local


def collapse_awaits_succ(body):
    """Successor map in which every await's poll loop is a straight line (poll -> ready), i.e. the `Pending`
    branch is removed.  Used by ordering rules that must not be confused by the poll loops' back edges."""
    key = "collapsed"
    if key in body._reach_cache:
        return body._reach_cache[key]
    cut = set()
    for a in awaits(body):
        cut.add((a.switch_bb, a.pending_bb))
    succ = []
    for i, ss in enumerate(body.succ):
        succ.append([s for s in ss if (i, s) not in cut])
    body._reach_cache[key] = succ
    return succ


# --------------------------------------------------------------------------------------------------
# G5: backward slices
# --------------------------------------------------------------------------------------------------

class Slice:
    """Result of a backward data-dependence slice inside one body."""

    def __init__(self):
        self.locals = set()
        self.params = set()  # local indices that are arguments
        self.consts = []  # const operands
        self.calls = []  # (Site, term)
        self.fields = set()  # (owner, field)
        self.places = []  # every place read
        self.aggs = []  # (Site, rvalue)
        self.fns = []  # fn-item operands used as values
        self.upvars = set()  # upvar indices read (closure bodies)
        self.sites = set()
        self.bins = []  # (Site, rvalue) binary/unary ops

    def calls_matching(self, *regexes):
        return [(s, t) for s, t in self.calls if callee_is(t, *regexes)]

    def has_call(self, *regexes):
        return bool(self.calls_matching(*regexes))

    def field_names(self):
        return {n for _, n in self.fields}

    def const_ints(self):
        return [const_int(c) for c in self.consts if const_int(c) is not None]

    def const_strs(self):
        return [const_str(c) for c in self.consts if const_str(c) is not None]


def mutating_calls(body):
    """local -> list of (Site, term): calls that receive `&mut local` (possibly re-borrowed) and may write it."""
    key = "mutcalls"
    if key in body._reach_cache:
        return body._reach_cache[key]
    # which temporaries are `&mut X...`
    mutref = {}
    for l, ds in body.defs.items():
        for s, kind, payload in ds:
            if kind == "assign" and payload["rv"]["k"] == "ref" and payload["rv"]["mut"]:
                mutref.setdefault(l, []).append(payload["rv"]["pl"])
    out = defaultdict(list)
    for site, t in body.calls():
        for a in t["args"]:
            l = op_local(a)
            if l is None:
                continue
            seen = set()
            work = [l]
            while work:
                x = work.pop()
                if x in seen:
                    continue
                seen.add(x)
                for pl in mutref.get(x, []):
                    base = pl["l"]
                    if pl["p"] and pl["p"][0] == "*":
                        work.append(base)  # reborrow of another &mut
                    else:
                        out[base].append((site, t))
    body._reach_cache[key] = out
    return out


def deref_writers(body):
    """local L -> list of (Site, stmt/term) that write through a pointer derived from `&mut L…` (`*p = v`, `(*p).f = v`)."""
    key = "derefw"
    if key in body._reach_cache:
        return body._reach_cache[key]
    # pointer local -> base locals it may point into
    points = defaultdict(set)
    changed = True
    rounds = 0
    while changed and rounds < 6:
        changed = False
        rounds += 1
        for l, ds in body.defs.items():
            for s, kind, payload in ds:
                if kind != "assign":
                    continue
                rv = payload["rv"]
                src = None
                if rv["k"] == "ref":
                    src = rv["pl"]
                    if src["p"] and src["p"][0] == "*":
                        new = points.get(src["l"], set())
                    else:
                        new = {src["l"]}
                elif rv["k"] == "use" and op_place(rv["op"]) is not None and not op_place(rv["op"])["p"]:
                    new = points.get(op_place(rv["op"])["l"], set())
                else:
                    continue
                if not new <= points[l]:
                    points[l] |= new
                    changed = True
    out = defaultdict(list)
    for p, ds in body.defs.items():
        for s, kind, payload in ds:
            if kind == "deref":
                for base in points.get(p, ()):
                    out[base].append((s, kind, payload))
    body._reach_cache[key] = out
    return out


def slice_back(body, start_ops=(), start_locals=(), through_calls=True, stop_calls=None, max_nodes=4000):
    """Backward slice over locals starting from operands / locals.  Flow-insensitive (all definitions of a
    multiply assigned local are followed): an over-approximation of "may depend on"."""
    sl = Slice()
    work = deque()

    def add_place(pl):
        sl.places.append(pl)
        for of in place_fields(pl):
            sl.fields.add(of)
            if of[0].startswith("{upvar}") and pl["l"] == 1:
                pass
        is_upvar = False
        if pl["l"] == 1 and body.kind in NESTED_KINDS:
            for e in pl["p"]:
                if isinstance(e, dict) and "f" in e and e["o"].startswith("{upvar}"):
                    sl.upvars.add(e["f"])
                    is_upvar = True
                    break
        for e in pl["p"]:
            if isinstance(e, dict) and "idx" in e:
                work.append(e["idx"])
        if is_upvar:
            # a captured value: tracked per capture (sl.upvars), not through the closure-state local as a whole —
            # otherwise every capture would depend on every call that receives any other capture mutably
            sl.locals.add(1) if False else None
            return
        work.append(pl["l"])

    def add_op(op):
        k = op.get("k")
        if k in ("copy", "move"):
            add_place(op["pl"])
        elif k == "const":
            sl.consts.append(op)
        elif k == "fn":
            sl.fns.append(op)

    for op in start_ops:
        add_op(op)
    for l in start_locals:
        work.append(l)
    mc = mutating_calls(body)
    dw = deref_writers(body)
    while work:
        l = work.popleft()
        if l in sl.locals:
            continue
        sl.locals.add(l)
        if len(sl.locals) > max_nodes:
            break
        if 1 <= l <= body.arg_count:
            sl.params.add(l)
        for site, kind, payload in list(body.defs.get(l, [])) + dw.get(l, []):
            sl.sites.add(site)
            if kind in ("assign", "part", "deref") and "rv" in payload:
                rv = payload["rv"]
                if rv["k"] == "agg":
                    sl.aggs.append((site, rv))
                if rv["k"] in ("bin", "un"):
                    sl.bins.append((site, rv))
                for op in rvalue_operands(rv):
                    add_op(op)
                if rv["k"] in ("ref", "discr"):
                    add_place(rv["pl"])
                if kind in ("part", "deref"):
                    # index locals of the written place
                    for e in payload["pl"]["p"]:
                        if isinstance(e, dict) and "idx" in e:
                            work.append(e["idx"])
            elif kind in ("call",):
                sl.calls.append((site, payload))
                if stop_calls and callee_is(payload, *stop_calls):
                    continue
                if through_calls:
                    if payload["func"].get("k") != "fn":
                        add_op(payload["func"])
                    for a in payload["args"]:
                        add_op(a)
            elif kind == "yield":
                pass
        for site, t in mc.get(l, []):
            if (site, t) not in sl.calls:
                sl.calls.append((site, t))
                sl.sites.add(site)
                if through_calls and not (stop_calls and callee_is(t, *stop_calls)):
                    for a in t["args"]:
                        add_op(a)
    return sl


# --------------------------------------------------------------------------------------------------
# closures: where a closure value goes
# --------------------------------------------------------------------------------------------------

def closure_creation(F, cbody):
    """(parent body, Site of the aggregate, rvalue) creating closure/coroutine `cbody`."""
    parent = F.parent_body(cbody)
    if parent is None:
        return None
    for site, st in parent.assigns(lambda st: st["rv"]["k"] == "agg" and st["rv"].get("def") == cbody.name):
        return parent, site, st
    return None


def forward_uses(body, local, max_hops=8):
    """Follow moves/copies/refs of a local forward; return list of (Site, term, arg_index) of calls receiving it
    (directly or via re-borrow / move chains) and the set of alias locals."""
    aliases = {local}
    changed = True
    hops = 0
    while changed and hops < max_hops:
        changed = False
        hops += 1
        for l, ds in body.defs.items():
            if l in aliases:
                continue
            for s, kind, payload in ds:
                if kind != "assign":
                    continue
                rv = payload["rv"]
                src = None
                if rv["k"] == "use":
                    src = op_place(rv["op"])
                elif rv["k"] == "ref":
                    src = rv["pl"]
                elif rv["k"] == "cast":
                    src = op_place(rv["op"])
                if src is not None and src["l"] in aliases and all(e == "*" for e in src["p"]):
                    aliases.add(l)
                    changed = True
    uses = []
    for site, t in body.calls():
        for i, a in enumerate(t["args"]):
            l = op_local(a)
            if l is not None and l in aliases:
                uses.append((site, t, i))
    return uses, aliases


def closure_upvar_operands(F, cbody):
    """upvar index -> operand in the parent body that was captured (from the creating aggregate)."""
    cc = closure_creation(F, cbody)
    if cc is None:
        return None, {}
    parent, site, st = cc
    return parent, {i: op for i, op in enumerate(st["rv"]["ops"])}


# --------------------------------------------------------------------------------------------------
# G3: guards — switch edges that every path to a site must cross
# --------------------------------------------------------------------------------------------------

class Guard:
    """`site` is reachable only through edge(s) of switch block `bb` whose values are `values` (None=otherwise)."""

    def __init__(self, body, bb, values, targets):
        self.body, self.bb, self.values, self.targets = body, bb, values, targets
        self.term = body.blocks[bb]["term"]

    @property
    def discr_local(self):
        return op_local(self.term["discr"])

    def cond_def(self):
        """Definition of the switched local: ('discr', place, adt, variants) | ('call', Site, term) |
        ('bin', Site, rv) | ('un', ...) | ('use', place) | None"""
        l = self.discr_local
        if l is None:
            return None
        return local_def_desc(self.body, l)

    def polarity(self):
        """For boolean switches: True if the guard is the `true` edge, False if `false` edge, None otherwise."""
        vals = set(self.values)
        listed = [v for v, _ in self.term["targets"]]
        if listed == [0]:
            if vals == {None}:
                return True
            if vals == {0}:
                return False
        return None

    def variants(self):
        cd = self.cond_def()
        if not cd or cd[0] != "discr":
            return None
        vmap = {v: n for v, n in cd[3]}
        listed = {v for v, _ in self.term["targets"]}
        out = set()
        for v in self.values:
            if v is None:
                out |= {n for val, n in vmap.items() if val not in listed}
            else:
                out.add(vmap.get(v, str(v)))
        return out

    def __repr__(self):
        return f"<Guard bb{self.bb} values={self.values} {self.cond_def() and self.cond_def()[0]}>"


def local_def_desc(body, l, depth=0):
    sd = body.single_def(l)
    if sd is None:
        ds = body.defs.get(l, [])
        if not ds:
            return ("param", l)
        return ("multi", [d[0] for d in ds])
    site, kind, payload = sd
    if kind == "call":
        return ("call", site, payload)
    rv = payload["rv"]
    if rv["k"] == "discr":
        return ("discr", rv["pl"], rv["adt"], rv["variants"], site)
    if rv["k"] == "bin":
        return ("bin", site, rv)
    if rv["k"] == "un":
        return ("un", site, rv)
    if rv["k"] == "use":
        src = op_place(rv["op"])
        if src is not None and not src["p"] and depth < 6:
            return local_def_desc(body, src["l"], depth + 1)
        if src is not None:
            return ("place", src, site)
        c = op_const(rv["op"])
        if c is not None:
            return ("const", c, site)
    return ("other", site, rv)


def guards_of(body, site):
    """All switch guards of `site`: for each switch block, the set of its out-edges E such that site is
    unreachable from entry once E's *complement* edges are the only ones kept — i.e. the minimal set of edge
    values through which site is reachable, reported only if it is a proper subset of the switch's edges and the
    switch itself dominates the site."""
    cache = body._reach_cache.setdefault("guards", {})
    k = (site.bb,)
    if k in cache:
        return cache[k]
    out = []
    for bb in sorted(body.live_blocks):
        t = body.blocks[bb]["term"]
        if t["k"] != "switch":
            continue
        if bb == site.bb:
            continue
        d = body.dom.get(site.bb)
        if d is None or bb not in d:
            continue
        edges = body.switch_edges(bb)  # (value, target)
        tgt_vals = defaultdict(list)
        for v, tg in edges:
            tgt_vals[tg].append(v)
        if len(tgt_vals) < 2:
            continue
        # targets through which the site is reachable *from this switch without re-entering it*
        need = []
        for tg in tgt_vals:
            # reachable from tg to site.bb avoiding bb
            if tg == site.bb or site.bb in body.reachable_blocks(tg, cut_blocks=frozenset([bb])):
                need.append(tg)
        if 0 < len(need) < len(tgt_vals):
            # drop "unreachable" targets from consideration: if the only excluded targets are `unreachable` blocks
            excluded = [tg for tg in tgt_vals if tg not in need]
            if all(body.blocks[x]["term"]["k"] == "unreachable" and not body.blocks[x]["stmts"] for x in excluded):
                continue
            vals = []
            for tg in need:
                vals.extend(tgt_vals[tg])
            out.append(Guard(body, bb, vals, need))
    cache[k] = out  # (recursion guard: the derived guards below look at other sites)
    out = _implied_guards(body, out)
    cache[k] = out
    return out


class ValueGuard(Guard):
    """Derived guard: bool local `local` (or the result of the call defining it) is known to be `value`
    (through a `let c = a && b; if c` temp)."""

    def __init__(self, body, local, value, at_bb, cd=None):
        self.body, self.bb, self.targets = body, at_bb, []
        self.values = [None] if value else [0]
        self.term = {"k": "switch", "discr": {"k": "copy", "pl": {"l": local, "p": []}}, "targets": [[0, -1]], "otherwise": -2}
        self.derived = True
        self._cd = cd

    def cond_def(self):
        return self._cd if self._cd is not None else Guard.cond_def(self)


def _implied_guards(body, guards, depth=0):
    """A switch on a bool temp that was assigned on several paths (`let c = a && b;`, `let c = a || b;`): if only one
    of its definitions can produce the guarded value, everything that guards that definition also holds, and if that
    definition copies another bool / is a call, that bool / call result has the guarded value too."""
    out = list(guards)
    seen = {(g.bb, tuple(g.values), None) for g in out}
    work = list(guards)
    n = 0
    while work and n < 64:
        n += 1
        g = work.pop()
        pol = g.polarity()
        l = g.discr_local
        if pol is None or l is None or body.locals[l] != "bool":
            continue
        for _ in range(6):
            sd = body.single_def(l)
            if sd and sd[1] == "assign" and sd[2]["rv"]["k"] == "use" and op_local(sd[2]["rv"]["op"]) is not None and not op_place(sd[2]["rv"]["op"])["p"]:
                l = op_local(sd[2]["rv"]["op"])
            else:
                break
        defs = body.defs.get(l, [])
        if len(defs) < 2 or any(not (d[1] == "call" or (d[1] == "assign" and d[2]["rv"]["k"] == "use")) for d in defs):
            continue
        consistent = []
        for site, kind, st in defs:
            if kind == "call":
                consistent.append((site, None, ("call", site, st)))
                continue
            c = const_int(st["rv"]["op"])
            if c is not None:
                if bool(c) == pol:
                    consistent.append((site, None, None))
            else:
                consistent.append((site, op_local(st["rv"]["op"]), None))
        if len(consistent) != 1:
            continue
        dsite, src, cd = consistent[0]
        new = list(guards_of(body, dsite))
        if src is not None:
            new.append(ValueGuard(body, src, pol, dsite.bb))
        elif cd is not None:
            new.append(ValueGuard(body, l, pol, dsite.bb, cd))
        for ng in new:
            key = (ng.bb, tuple(ng.values), ng.discr_local if getattr(ng, "derived", False) else None)
            if key in seen:
                continue
            seen.add(key)
            out.append(ng)
            work.append(ng)
    return out


# --------------------------------------------------------------------------------------------------
# G4: variant constraints
# --------------------------------------------------------------------------------------------------

def variant_constraints(body):
    """Forward may-analysis: at entry of each block, canonical place string -> frozenset of possible variants.
    Refined on `switch(discriminant(place))` edges.  Missing key = unconstrained."""
    key = "vc"
    if key in body._reach_cache:
        return body._reach_cache[key]
    live = body.live_blocks
    # per switch block: (placekey, adt, value->variant, all variants)
    sw = {}
    for bb in live:
        t = body.blocks[bb]["term"]
        if t["k"] != "switch":
            continue
        l = op_local(t["discr"])
        if l is None:
            continue
        d = local_def_desc(body, l)
        if d and d[0] == "discr":
            pk = canon_str(body, d[1])
            vmap = {v: n for v, n in d[3]}
            sw[bb] = (pk, d[2], vmap)
    body._reach_cache["vc_adt"] = {pk: adt for (pk, adt, vmap) in sw.values()}
    state = {0: {}}
    work = deque([0])
    inq = {0}
    # kills: assignment to a whole local kills keys based on that local
    kills = defaultdict(set)
    for bb in live:
        for st in body.blocks[bb]["stmts"]:
            if not st["pl"]["p"]:
                kills[bb].add(st["pl"]["l"])
        t = body.blocks[bb]["term"]
        if t["k"] == "call" and not t["dest"]["p"]:
            kills[bb].add(t["dest"]["l"])
    # only user-visible multiply-assigned locals matter for kills
    multi = {l for l, ds in body.defs.items() if len([d for d in ds if d[1] not in ("part", "deref")]) > 1}

    def base_local(pk):
        m = re.match(r"_(\d+)", pk)
        return int(m.group(1)) if m else -1

    # `matches!`-style booleans: a bool local all of whose definitions are `const true/false`; switching on it
    # re-establishes the constraints that held where the taken constant was assigned
    boolsw = {}
    for bb in live:
        t = body.blocks[bb]["term"]
        if t["k"] != "switch" or bb in sw:
            continue
        l = op_local(t["discr"])
        if l is None or body.locals[l] != "bool":
            continue
        # follow a plain copy/move chain to the multiply-defined bool
        for _ in range(3):
            sd = body.single_def(l)
            if sd and sd[1] == "assign" and sd[2]["rv"]["k"] == "use" and op_local(sd[2]["rv"]["op"]) is not None:
                l = op_local(sd[2]["rv"]["op"])
            else:
                break
        ds = body.defs.get(l, [])
        if len(ds) < 2:
            continue
        byval = {}
        okb = True
        for site, kind, payload in ds:
            if kind != "assign" or payload["rv"]["k"] != "use" or const_int(payload["rv"]["op"]) is None:
                okb = False
                break
            byval.setdefault(const_int(payload["rv"]["op"]), []).append(site.bb)
        if okb:
            boolsw[bb] = byval

    iters = 0
    while work:
        bb = work.popleft()
        inq.discard(bb)
        iters += 1
        if iters > 200000:
            break
        cur = dict(state.get(bb, {}))
        kl = kills[bb] & multi
        if kl:
            cur = {k: v for k, v in cur.items() if base_local(k) not in kl}
        t = body.blocks[bb]["term"]
        for s in body.succ[bb]:
            new = dict(cur)
            if bb in sw:
                pk, adt, vmap = sw[bb]
                listed = [v for v, tg in t["targets"]]
                vals = [v for v, tg in t["targets"] if tg == s]
                allowed = set()
                for v in vals:
                    allowed.add(vmap.get(v, str(v)))
                if t["otherwise"] == s:
                    allowed |= {n for val, n in vmap.items() if val not in listed}
                prev = new.get(pk)
                if prev is not None:
                    allowed &= prev
                new[pk] = frozenset(allowed)
            elif bb in boolsw:
                byval = boolsw[bb]
                vals = [v for v, tg in t["targets"] if tg == s]
                listed = [v for v, tg in t["targets"]]
                if t["otherwise"] == s:
                    vals = vals + [v for v in byval if v not in listed]
                cands = [state[db] for v in vals for db in byval.get(v, []) if db in state]
                if cands:
                    keys = set(cands[0])
                    for c in cands[1:]:
                        keys &= set(c)
                    for k2 in keys:
                        u = frozenset()
                        for c in cands:
                            u = u | c[k2]
                        new[k2] = (new[k2] & u) if k2 in new else u
            old = state.get(s)
            if old is None:
                state[s] = new
                if s not in inq:
                    work.append(s)
                    inq.add(s)
            else:
                merged = {}
                for k2, v2 in old.items():
                    if k2 in new:
                        merged[k2] = v2 | new[k2]
                if merged != old:
                    state[s] = merged
                    if s not in inq:
                        work.append(s)
                        inq.add(s)
    body._reach_cache[key] = state
    return state


def vc_at(body, site):
    return variant_constraints(body).get(site.bb, {})


# --------------------------------------------------------------------------------------------------
# G8: event constructor summaries
# --------------------------------------------------------------------------------------------------

EVENT_ADTS = ("event::Cucumber", "event::Feature", "event::Rule", "event::Scenario", "event::Hook", "event::Step",
              "event::StepError", "event::HookType", "event::ScenarioFinished", "event::RetryableScenario")


def built_variants(F, body, depth=0, seen=None):
    """Set of `Adt::Variant` strings for event ADT aggregates constructed by `body` or its crate-local callees."""
    cache = F.__dict__.setdefault("_built_cache", {})
    if body.key in cache:
        return cache[body.key]
    seen = seen or set()
    if body.key in seen or depth > 4:
        return set()
    seen = seen | {body.key}
    out = set()
    for b in F.nested(body):
        for site, st in b.assigns(lambda st: st["rv"]["k"] == "agg" and st["rv"].get("agg") == "adt"):
            rv = st["rv"]
            if rv["adt"] in EVENT_ADTS:
                out.add(f"{rv['adt']}::{rv['variant']}")
        for site, t in b.calls():
            cb = F.callee_body(t, b.crate)
            if cb is not None and cb.name.startswith("event::"):
                out |= built_variants(F, cb, depth + 1, seen)
            # enum tuple-variant constructors used as fns: `event::Cucumber::Feature(..)` appear as aggregates.
    cache[body.key] = out
    return out


def event_tags(F, body, op, depth=0):
    """Event variants that may flow into operand `op`: aggregates in its slice plus summaries of constructor
    calls (crate-local `event::…` fns) and fn items passed as values."""
    sl = slice_back(body, [op])
    tags = set()
    for site, rv in sl.aggs:
        if rv.get("agg") == "adt" and rv["adt"] in EVENT_ADTS:
            tags.add(f"{rv['adt']}::{rv['variant']}")
    for site, t in sl.calls:
        cb = F.callee_body(t, body.crate)
        if cb is not None and cb.name.startswith("event::"):
            tags |= built_variants(F, cb)
    for f in sl.fns:
        if f.get("local"):
            cb = F.body(f["path"], body.crate)
            if cb is not None and cb.name.startswith("event::"):
                tags |= built_variants(F, cb)
    return tags, sl


# --------------------------------------------------------------------------------------------------
# G10: suspension-free cycles
# --------------------------------------------------------------------------------------------------

def find_cycle(nodes, succ_fn):
    """Return one cycle (list of nodes) in the directed graph, or None.  Iterative DFS."""
    WHITE, GREY, BLACK = 0, 1, 2
    color = {n: WHITE for n in nodes}
    for root in nodes:
        if color[root] != WHITE:
            continue
        stack = [(root, iter(succ_fn(root)))]
        color[root] = GREY
        path = [root]
        while stack:
            n, it = stack[-1]
            adv = False
            for s in it:
                if s not in color:
                    continue
                if color[s] == GREY:
                    i = path.index(s)
                    return path[i:] + [s]
                if color[s] == WHITE:
                    color[s] = GREY
                    stack.append((s, iter(succ_fn(s))))
                    path.append(s)
                    adv = True
                    break
            if not adv:
                color[n] = BLACK
                stack.pop()
                path.pop()
    return None


def all_cycles_sccs(nodes, succ_fn):
    """Strongly connected components with at least one edge (Tarjan, iterative)."""
    index = {}
    low = {}
    onstack = set()
    st = []
    res = []
    counter = [0]
    for root in nodes:
        if root in index:
            continue
        work = [(root, iter(succ_fn(root)))]
        index[root] = low[root] = counter[0]
        counter[0] += 1
        st.append(root)
        onstack.add(root)
        while work:
            n, it = work[-1]
            adv = False
            for s in it:
                if s not in index:
                    index[s] = low[s] = counter[0]
                    counter[0] += 1
                    st.append(s)
                    onstack.add(s)
                    work.append((s, iter(succ_fn(s))))
                    adv = True
                    break
                elif s in onstack:
                    low[n] = min(low[n], index[s])
            if adv:
                continue
            work.pop()
            if work:
                p = work[-1][0]
                low[p] = min(low[p], low[n])
            if low[n] == index[n]:
                comp = []
                while True:
                    x = st.pop()
                    onstack.discard(x)
                    comp.append(x)
                    if x == n:
                        break
                if len(comp) > 1 or n in list(succ_fn(n)):
                    res.append(comp)
    return res


# --------------------------------------------------------------------------------------------------
# cross-body slices (through closure captures up to the enclosing fn's parameters)
# --------------------------------------------------------------------------------------------------

class DeepSlice:
    def __init__(self):
        self.slices = []  # (body, Slice)
        self.root_params = set()  # (root fn body key, param local index)
        self.calls = []  # (Site, term) over all levels
        self.fields = set()
        self.consts = []
        self.aggs = []
        self.fns = []

    def has_call(self, *regexes):
        return any(callee_is(t, *regexes) for _, t in self.calls)

    def calls_matching(self, *regexes):
        return [(s, t) for s, t in self.calls if callee_is(t, *regexes)]


def deep_slice(F, body, start_ops=(), start_locals=(), max_levels=8):
    """Backward slice that continues from a closure's / coroutine's upvars into the creating body."""
    ds = DeepSlice()
    work = [(body, list(start_ops), list(start_locals), 0)]
    seen = set()
    while work:
        b, ops, locs, lvl = work.pop()
        sl = slice_back(b, ops, locs)
        ds.slices.append((b, sl))
        ds.calls.extend(sl.calls)
        ds.fields |= sl.fields
        ds.consts.extend(sl.consts)
        ds.aggs.extend(sl.aggs)
        ds.fns.extend(sl.fns)
        if b.kind not in NESTED_KINDS:
            for p in sl.params:
                ds.root_params.add((b.key, p))
            continue
        if lvl >= max_levels:
            continue
        if sl.upvars:
            parent, ups = closure_upvar_operands(F, b)
            if parent is None:
                continue
            nxt = [ups[i] for i in sorted(sl.upvars) if i in ups]
            k = (parent.key, tuple(sorted(sl.upvars)), b.key)
            if k in seen:
                continue
            seen.add(k)
            work.append((parent, nxt, [], lvl + 1))
        # explicit (non-capture) parameters of a closure are supplied by whoever calls it: not followed.
    return ds


# --------------------------------------------------------------------------------------------------
# tiny abstract evaluation: upper bound of a `usize` / `Option<usize>` operand
# --------------------------------------------------------------------------------------------------

INF = float("inf")


def upper_bound(F, body, op, depth=0):
    """Upper bound of an operand of type usize (or Option<usize>, where None = unbounded).  Follows single
    definitions, closure captures, `usize::from(bool)` and bool casts.  Anything unknown is unbounded."""
    if depth > 10:
        return INF
    c = const_int(op)
    if c is not None:
        return c
    pl = op_place(op)
    if pl is None:
        return INF
    # closure capture?
    if pl["l"] == 1 and body.kind in NESTED_KINDS and pl["p"]:
        e = pl["p"][0]
        if isinstance(e, dict) and "f" in e and e["o"].startswith("{upvar}"):
            parent, ups = closure_upvar_operands(F, body)
            if parent is not None and e["f"] in ups:
                src = ups[e["f"]]
                # the captured operand may be a reference to the variable
                spl = op_place(src)
                if spl is not None and not spl["p"]:
                    sd = parent.single_def(spl["l"])
                    if sd and sd[1] == "assign" and sd[2]["rv"]["k"] == "ref":
                        rp = sd[2]["rv"]["pl"]
                        return upper_bound(F, parent, {"k": "copy", "pl": rp}, depth + 1)
                return upper_bound(F, parent, src, depth + 1)
        return INF
    if any(e != "*" for e in pl["p"]):
        # a projection of a local we cannot evaluate (fields of params etc.)
        base_sd = body.single_def(pl["l"])
        if base_sd and base_sd[1] == "assign" and base_sd[2]["rv"]["k"] == "ref":
            rp = base_sd[2]["rv"]["pl"]
            rest = [e for e in pl["p"]]
            if rest and rest[0] == "*":
                return upper_bound(F, body, {"k": "copy", "pl": {"l": rp["l"], "p": list(rp["p"]) + rest[1:]}}, depth + 1)
        return INF
    sd = body.single_def(pl["l"])
    if sd is None:
        return INF
    site, kind, payload = sd
    if kind == "call":
        f = op_fn(payload["func"])
        if f and re.search(r"From<bool>", f.get("full", "")) and f["path"].endswith("::from"):
            return 1
        return INF
    if kind != "assign":
        return INF
    rv = payload["rv"]
    if rv["k"] == "use":
        return upper_bound(F, body, rv["op"], depth + 1)
    if rv["k"] == "ref":
        return upper_bound(F, body, {"k": "copy", "pl": rv["pl"]}, depth + 1)
    if rv["k"] == "cast":
        src = op_place(rv["op"])
        if src is not None and not src["p"] and body.locals[src["l"]] == "bool":
            return 1
        return INF
    if rv["k"] == "agg" and rv.get("adt") == "std::option::Option":
        if rv["variant"] == "Some":
            return upper_bound(F, body, rv["ops"][0], depth + 1)
        return INF
    return INF


# --------------------------------------------------------------------------------------------------
# G9: acyclic path enumeration with per-path constant propagation
# --------------------------------------------------------------------------------------------------

class PathResult:
    def __init__(self, blocks, decisions, env, effects, ret):
        self.blocks = blocks  # list of bb
        self.decisions = decisions  # list of (atom-string, outcome-string)
        self.env = env  # local -> python value (bool/int) for known constants
        self.effects = effects  # list of (Site, kind, payload)
        self.ret = ret  # value of _0 if known: bool/int/("agg", adt, variant, ...) / None

    def decided(self, atom_regex):
        return [(a, o) for a, o in self.decisions if re.search(atom_regex, a)]

    def outcome(self, atom_regex):
        d = self.decided(atom_regex)
        return d[-1][1] if d else None

    def calls(self, *regexes):
        return [(s, p) for s, k, p in self.effects if k == "call" and (not regexes or callee_is(p, *regexes))]


def describe_operand(body, op, depth=0):
    """Line-free description of where an operand's value comes from (for condition atoms)."""
    c = op_const(op)
    if c is not None:
        s = const_str(op)
        if s is not None:
            return f'"{s}"'
        v = const_int(op)
        return str(v) if v is not None else c["text"]
    pl = op_place(op)
    if pl is None:
        return "?"
    cp = canon_place(body, pl)
    if depth < 6 and not cp["p"]:
        sd = body.single_def(cp["l"])
        if sd and sd[1] == "call":
            f = op_fn(sd[2]["func"])
            nm = re.sub(r"(::)?<[^<>]*(<[^<>]*(<[^<>]*>[^<>]*)*>[^<>]*)*>", "", f["path"]) if f else "indirect"
            args = ",".join(describe_operand(body, a, depth + 1) for a in sd[2]["args"])
            return f"{nm}({args})"
        if sd and sd[1] == "assign" and sd[2]["rv"]["k"] == "bin":
            rv = sd[2]["rv"]
            return f"{rv['op']}({describe_operand(body, rv['a'], depth + 1)},{describe_operand(body, rv['b'], depth + 1)})"
        if sd and sd[1] == "assign" and sd[2]["rv"]["k"] == "un":
            rv = sd[2]["rv"]
            return f"{rv['op']}({describe_operand(body, rv['a'], depth + 1)})"
        if sd and sd[1] == "assign" and sd[2]["rv"]["k"] == "discr":
            return f"discr({describe_place(body, sd[2]['rv']['pl'])})"
        if sd and sd[1] == "assign" and sd[2]["rv"]["k"] == "ref":
            return "&" + describe_place(body, sd[2]["rv"]["pl"])
    return describe_place(body, cp)


def describe_place(body, pl):
    """`_2.*.left` -> `arg2:r.*.left` using debug names (names of parameters / upvars)."""
    cp = canon_place(body, pl)
    base = cp["l"]
    name = body.debug_name(base)
    proj = cp["p"]
    if base == 1 and body.kind in NESTED_KINDS and proj:
        e = proj[0]
        if isinstance(e, dict) and "f" in e and e["o"].startswith("{upvar}"):
            nm = body.upvar_names().get(e["f"], f"upvar{e['f']}")
            rest = place_str({"l": 0, "p": proj[1:]})[2:]
            return f"^{nm}{rest}"
    label = name if name else (f"arg{base}" if 1 <= base <= body.arg_count else f"_{base}")
    rest = place_str({"l": 0, "p": proj})[2:]
    return f"{label}{rest}"


def enumerate_paths(body, max_paths=512, start_bb=0, succ=None):
    """All acyclic normal paths from entry to `return` (loops are cut at the first revisit).  Per path:
    branch decisions as (atom, outcome) and constants known at the end."""
    succ = succ or body.succ
    results = []

    def atom_of_switch(bb, env):
        t = body.blocks[bb]["term"]
        l = op_local(t["discr"])
        if l is None:
            return (describe_operand(body, t["discr"]), None)
        d = local_def_desc(body, l)
        if d[0] == "discr":
            return (f"discr({describe_place(body, d[1])}:{d[2]})", {v: n for v, n in d[3]})
        return (describe_operand(body, t["discr"]), None)

    def walk(bb, blocks, decisions, env, effects):
        if len(results) >= max_paths:
            return
        blk = body.blocks[bb]
        env = dict(env)
        effects = list(effects)
        for si, st in enumerate(blk["stmts"]):
            pl = st["pl"]
            rv = st["rv"]
            effects.append((Site(body, bb, si), "assign", st))
            if pl["p"]:
                continue
            val = None
            if rv["k"] == "use":
                c = op_const(rv["op"])
                if c is not None:
                    iv = const_int(rv["op"])
                    if c["ty"] == "bool" and iv is not None:
                        val = bool(iv)
                    elif iv is not None:
                        val = iv
                else:
                    sl = op_local(rv["op"])
                    if sl is not None and sl in env:
                        val = env[sl]
            elif rv["k"] == "un" and rv["op"] == "Not":
                sl = op_local(rv["a"])
                if sl is not None and isinstance(env.get(sl), bool):
                    val = not env[sl]
            elif rv["k"] == "agg" and rv.get("agg") == "adt":
                val = ("agg", rv["adt"], rv["variant"], tuple(rv["ops"] and [describe_operand(body, o) for o in rv["ops"]] or []))
            if val is not None:
                env[pl["l"]] = val
            else:
                env.pop(pl["l"], None)
        t = blk["term"]
        k = t["k"]
        if k == "return":
            results.append(PathResult(blocks + [bb], decisions, env, effects, env.get(0)))
            return
        if k == "call":
            effects.append((Site(body, bb, "T"), "call", t))
            if not t["dest"]["p"]:
                env.pop(t["dest"]["l"], None)
        nxt = succ[bb]
        if k == "switch":
            atom, vmap = atom_of_switch(bb, env)
            l = op_local(t["discr"])
            known = env.get(l) if l is not None else None
            listed = [v for v, _ in t["targets"]]
            for v, tg in t["targets"]:
                if tg not in nxt:
                    continue
                if isinstance(known, (bool, int)) and not isinstance(known, tuple) and int(known) != v:
                    continue
                out = vmap.get(v, str(v)) if vmap else ("false" if v == 0 and listed == [0] else str(v))
                if tg in blocks or tg == bb:
                    continue
                walk(tg, blocks + [bb], decisions + [(atom, out)], env, effects)
            tg = t["otherwise"]
            if tg in nxt and not (isinstance(known, (bool, int)) and not isinstance(known, tuple) and int(known) in listed):
                if vmap:
                    rest = sorted(n for val, n in vmap.items() if val not in listed)
                    out = "|".join(rest) if rest else "otherwise"
                else:
                    out = "true" if listed == [0] else "otherwise"
                if body.blocks[tg]["term"]["k"] == "unreachable" and not body.blocks[tg]["stmts"]:
                    return
                if tg not in blocks and tg != bb:
                    walk(tg, blocks + [bb], decisions + [(atom, out)], env, effects)
            return
        for s in nxt:
            if s in blocks or s == bb:
                continue
            walk(s, blocks + [bb], decisions, env, effects)

    walk(start_bb, [], [], {}, [])
    return results


def receiver_chain(body, op, limit=12):
    """Calls producing `op`, following the first argument (receiver) through single definitions:
    `x.into_iter().filter(p).collect()` -> [collect, filter, into_iter, <producer of x>]."""
    out = []
    cur = op
    for _ in range(limit):
        pl = op_place(cur)
        if pl is None:
            break
        cp = canon_place(body, pl)
        if cp["p"] and not all(e == "*" for e in cp["p"]):
            break
        sd = body.single_def(cp["l"])
        if sd is None:
            break
        if sd[1] == "assign" and sd[2]["rv"]["k"] == "ref":
            cur = {"k": "copy", "pl": sd[2]["rv"]["pl"]}
            continue
        if sd[1] != "call":
            break
        out.append((sd[0], sd[2]))
        if not sd[2]["args"]:
            break
        cur = sd[2]["args"][0]
    return out


def closure_of_operand(F, body, op, depth=0):
    """The closure/coroutine body whose value is (directly, via moves/refs/casts) the operand — not anything it captures."""
    if depth > 8:
        return None
    f = op_fn(op)
    if f is not None:
        return F.body(f["path"], body.crate) if f.get("local") else None
    pl = op_place(op)
    if pl is None:
        return None
    cp = canon_place(body, pl)
    if cp["l"] == 1 and body.kind in NESTED_KINDS and cp["p"]:
        # a captured closure: continue in the creating body
        e, rest = cp["p"][0], cp["p"][1:]
        if e == "*" and rest:
            e, rest = rest[0], rest[1:]     # `Fn` / `FnMut` closures receive `&self` / `&mut self`
        if isinstance(e, dict) and "f" in e and e["o"].startswith("{upvar}") and all(x == "*" for x in rest):
            parent, ups = closure_upvar_operands(F, body)
            if parent is not None and e["f"] in ups:
                return closure_of_operand(F, parent, ups[e["f"]], depth + 1)
        return None
    if cp["p"] and not all(e == "*" for e in cp["p"]):
        return None
    sd = body.single_def(cp["l"])
    if sd is None or sd[1] != "assign":
        return None
    rv = sd[2]["rv"]
    if rv["k"] == "agg" and rv.get("agg") in ("closure", "coroutine", "coroutine_closure"):
        return F.body(rv["def"], body.crate)
    if rv["k"] in ("use", "cast"):
        return closure_of_operand(F, body, rv["op"], depth + 1)
    if rv["k"] == "ref":
        return closure_of_operand(F, body, {"k": "copy", "pl": rv["pl"]}, depth + 1)
    return None


def depends_on_call(F, body, op, regexes, bodies, depth=0):
    """Does operand `op` of `body` (may-)depend on the result of a call matching `regexes` — following the value
    through the parameters of `body` into its call sites within `bodies` (helper extraction) and through closure
    captures (deep_slice)?"""
    sl = deep_slice(F, body, [op])
    if sl.has_call(*regexes):
        return True
    if depth >= 3:
        return False
    for key, pi in sl.root_params:
        root = F.bodies.get(key)
        for fb in bodies:
            for s, t in fb.calls():
                if F.callee_body(t, fb.crate) is root and pi - 1 < len(t["args"]):
                    if depends_on_call(F, fb, t["args"][pi - 1], regexes, bodies, depth + 1):
                        return True
    return False


def lift_site(F, site, anc, depth=0):
    """The site in ancestor body `anc` that stands for `site` of a closure nested in it: the call that receives the
    closure value (`opt.and_then(|x| ..)`), else the closure's creation site.  `site` itself if already in `anc`."""
    if site.body is anc or depth > 6:
        return site
    cc = closure_creation(F, site.body)
    if cc is None:
        return None
    parent, csite, st = cc
    uses, _ = forward_uses(parent, st["pl"]["l"])
    at = uses[0][0] if uses else csite
    return lift_site(F, at, anc, depth + 1)


def canon_place_deep(F, body, pl, depth=0):
    """canon_place, continued through closure captures into the creating body: (body, place)."""
    cp = canon_place(body, pl)
    if depth > 6 or body.kind not in NESTED_KINDS or cp["l"] != 1 or not cp["p"]:
        return body, cp
    e = cp["p"][0]
    skip = 1
    if e == "*" and len(cp["p"]) > 1:
        # `FnMut` / `Fn` closures receive `&mut self` / `&self`
        e = cp["p"][1]
        skip = 2
    if not (isinstance(e, dict) and "f" in e and e.get("o", "").startswith("{upvar}")):
        return body, cp
    parent, ups = closure_upvar_operands(F, body)
    if parent is None or e["f"] not in ups:
        return body, cp
    src = op_place(ups[e["f"]])
    if src is None:
        return body, cp
    # the capture is either the value or a reference to it
    rest = [x for x in cp["p"][skip:]]
    pb, pp = canon_place_deep(F, parent, src, depth + 1)
    sd = pb.single_def(pp["l"]) if not pp["p"] else None
    if sd and sd[1] == "assign" and sd[2]["rv"]["k"] == "ref":
        # captured by reference: `*upvar` is the referenced place
        base = canon_place_deep(F, pb, sd[2]["rv"]["pl"], depth + 1)
        if rest and rest[0] == "*":
            rest = rest[1:]
        return base[0], {"l": base[1]["l"], "p": list(base[1]["p"]) + rest}
    return pb, {"l": pp["l"], "p": list(pp["p"]) + rest}


def fields_through_callers(F, body, op, bodies, depth=0):
    """(fields, calls) the operand may depend on, following closure captures and — through the parameters of a helper
    fn — the corresponding arguments at its call sites within `bodies`."""
    ds = deep_slice(F, body, [op])
    fields = set(ds.fields)
    calls = list(ds.calls)
    if depth < 3:
        for key, pi in ds.root_params:
            root = F.bodies.get(key)
            for fb in bodies:
                for s, t in fb.calls():
                    if F.callee_body(t, fb.crate) is root and pi - 1 < len(t["args"]):
                        f2, c2 = fields_through_callers(F, fb, t["args"][pi - 1], bodies, depth + 1)
                        fields |= f2
                        calls += c2
    return fields, calls


def loop_filter_idiom(F, body, vec_op):
    """`let mut kept = Vec::new(); for x in <source> { if pred(.., &x) { kept.push(x) } }` — the explicit spelling of
    `source.into_iter().filter(pred).collect()`.  For the operand holding `kept` returns
    {"source": operand iterated, "pred": (site, term) of the guarding call, "push": site} when: the vector starts
    empty, has exactly one push, that push is in a loop driven by `Iterator::next` whose only exit is the iterator's end,
    the pushed value is the loop item, and the push is guarded (inside the loop) by exactly one call's `true` result."""
    l = op_local(vec_op)
    if l is None:
        return None
    v = canon_place(body, {"l": l, "p": []})["l"]
    defs = body.defs.get(v, [])
    if not any(k == "call" and callee_is(p, r"Vec::<.*>::new$", r"Vec::<.*>::with_capacity$") for _, k, p in defs):
        return None
    pushes = []
    for s, t in body.calls(lambda t: callee_is(t, r"Vec::<.*>::push$")):
        rl = op_local(t["args"][0])
        if rl is not None and canon_place(body, {"l": rl, "p": ["*"]})["l"] == v:
            pushes.append((s, t))
    if len(pushes) != 1:
        return None
    sp, tp = pushes[0]
    loops = []
    for sn, tn in body.calls(lambda t: callee_is(t, r"Iterator::next$")):
        cyc = natural_loop(body, sn.bb)
        if sp.bb in cyc:
            loops.append((len(cyc), sn.bb, sn, tn, cyc))
    if not loops:
        return None
    # the innermost loop containing the push
    _, _, sn, tn, cyc = min(loops, key=lambda x: (x[0], x[1]))
    nb = tn["t"]
    exits = [(x, y) for x in cyc for y in body.succ[x] if y not in cyc]
    if not exits or not all(x == nb for x, y in exits):
        return None
    # the pushed value is the item produced by next()
    isl = slice_back(body, [tp["args"][1]], stop_calls=[r"Iterator::next$"])
    if not any(cs == sn for cs, _ in isl.calls):
        return None
    gs = [g for g in guards_of(body, sp) if g.bb in cyc and g.bb != nb]
    preds = []
    for g in gs:
        d = g.cond_def()
        if d and d[0] == "call" and g.polarity() is True:
            preds.append((d[1], d[2]))
        else:
            return None
    if len(preds) != 1:
        return None
    il = op_local(tn["args"][0])
    if il is None:
        return None
    il = canon_place(body, {"l": il, "p": ["*"]})["l"]
    src = None
    for _ in range(4):
        sd = body.single_def(il)
        if sd and sd[1] == "call" and callee_is(sd[2], r"IntoIterator::into_iter$"):
            src = sd[2]
            break
        if sd and sd[1] == "assign" and sd[2]["rv"]["k"] == "use" and op_local(sd[2]["rv"]["op"]) is not None:
            il = op_local(sd[2]["rv"]["op"])
            continue
        break
    if src is None:
        return None
    return {"source": src["args"][0], "pred": preds[0], "push": sp, "next": sn}


def natural_loop(body, h):
    """Blocks of the natural loop(s) with header `h`: h plus every block that reaches a back-edge source (a predecessor
    of h dominated by h) without passing through h."""
    for _ in range(6):
        if any(h in (body.dom.get(t) or ()) for t in body.pred[h]) or len(body.pred[h]) != 1:
            break
        h = body.pred[h][0]
    loop = {h}
    work = [t for t in body.pred[h] if h in (body.dom.get(t) or ())]
    while work:
        x = work.pop()
        if x in loop:
            continue
        loop.add(x)
        work.extend(body.pred[x])
    return loop


def for_loop_handles_every_element(body, s_next, t_next, handler_blocks, exit_ok=None):
    """`for x in it { .. }` (desugared: loop { match it.next() { None => break, Some(x) => .. } }): the loop is left only
    through the None edge of the switch on next()'s result, and every way from the Some edge back to `next` passes one
    of `handler_blocks` (a push, a call of the storing closure, an inner loop): no element is skipped."""
    cyc = natural_loop(body, s_next.bb)
    nb = t_next["t"]
    sw = body.blocks[nb]["term"]
    if sw["k"] != "switch" or nb not in cyc:
        return False
    exits = [(x, y) for x in cyc for y in body.succ[x] if y not in cyc and body.blocks[y]["term"]["k"] != "unreachable" and not (exit_ok is not None and x != nb and exit_ok(y))]
    if not exits or not all(x == nb for x, y in exits):
        return False
    inside = [y for y in body.succ[nb] if y in cyc]
    seen, work = set(), list(inside)
    while work:
        x = work.pop()
        if x in seen or x in handler_blocks or x not in cyc:
            continue
        if x == s_next.bb:
            return False
        seen.add(x)
        work.extend(body.succ[x])
    return True
