"""Counter writes of a statistics-keeping writer (Summarize, Libtest) from the *deep path table* of its
`Writer::handle_event` (deep.py): per path the event variants it handles, the polarity of the retry predicate, the
counter updates performed and the other conditions they depend on.  Independent of how the handler is split into
methods / helper fns and of combinator-vs-match spelling."""
import re

from . import analysis as A
from . import deep as D
from . import roles
from . import writers as W
from .mir import Site, Unverifiable

EVENT_ADTS = ("event::Cucumber", "event::Feature", "event::Rule", "event::Scenario", "event::Step", "event::Hook")
_CACHE = {}


class DW:
    """One counter update on one path."""

    def __init__(self, row, idx, path, op, site):
        self.row, self.idx, self.path, self.op, self.site = row, idx, path, op, site
        self.body = site.body if site is not None else None

    @property
    def name(self):
        return ".".join(self.path)

    @property
    def ctx(self):
        return self.row.ctx

    @property
    def rg(self):
        return self.row.rg

    def __repr__(self):
        return f"<{self.name} {self.op} ctx={ {k.rsplit('::', 1)[-1]: sorted(v) for k, v in self.ctx.items()} } rg={self.rg and self.rg[0]}>"


class Row:
    def __init__(self, T, p):
        self.T, self.p = T, p
        self.ctx = {}
        self.rg = None
        self.writes = []
        self.atoms = []   # (index in conds, kind, descr) of conditions that are neither event structure nor the retry predicate


DEEP_ADTS = ("writer::summarize::Summarize", "writer::libtest::Libtest")

# writers whose handle_event buffers / replays events: the per-event routine is the unit that is tabulated
ENTRY = {"writer::libtest::Libtest": r"::expand_cucumber_event$"}


class HandlerTable:
    def __init__(self, F, adt):
        self.F, self.adt = F, adt
        root, bodies = W.handler_bodies(F, adt)
        self.root, self.bodies = root, bodies
        co = roles.coroutine_of(F, root)
        if co is None:
            raise Unverifiable(f"{adt}: handle_event has no coroutine body")
        self.entry = None
        if adt in ENTRY:
            es = [b for b in bodies if re.search(ENTRY[adt], b.name) and b.impl and b.impl.get("self_adt") == adt]
            if len(es) != 1:
                raise Unverifiable(f"{adt}: per-event routine /{ENTRY[adt]}/ resolved to {len(es)} bodies reachable from handle_event")
            co = es[0]
            self.entry = co
        self.co = co
        mod = adt.rsplit("::", 1)[0] + "::"

        def only(cb):
            if cb.impl and cb.impl.get("self_adt") == adt and not cb.impl.get("trait"):
                return True
            if cb.name.startswith("event::"):
                return True
            # private helper fns of the writer's own module
            return cb.name.startswith(mod) and cb.vis != "Public" and not (cb.impl and cb.impl.get("trait"))
        # Libtest formats a lot in the routines that also count: whatever follows the last reachable counter update of a
        # frame is pruned (deep.py `prune`), which keeps its table small (≈230 rows instead of >20000)
        self.deep = D.Deep(F, co, inline_only=only, max_paths=6000, prune=("" if self.entry is not None else None))
        self.paths = self.deep.run()
        if not self.paths:
            raise Unverifiable(f"{adt}: empty path table")
        # the event parameter of the coroutine (upvar named `event` / `ev`)
        self.event_root = None
        self.self_root = None
        if self.entry is None:
            for i, nm in co.upvar_names().items():
                ty = self._upvar_ty(i)
                if "event::Event<event::Cucumber" in ty or "parser::Error" in ty:
                    self.event_root = ("field", ("arg", 1), i)
            for i, nm in co.upvar_names().items():
                if nm == "self":
                    self.self_root = ("field", ("arg", 1), i)
        else:
            for i in range(1, co.arg_count + 1):
                ty = co.locals[i]
                if "event::Event<event::Cucumber" in ty or "parser::Error" in ty:
                    self.event_root = ("arg", i)
            self.self_root = ("arg", 1)
        if self.event_root is None:
            raise Unverifiable(f"{adt}: the event parameter of the handler was not found")
        self.left_idx = self._field_index("event::Retries", "left")
        self.retries_opts = self._find_retries_options()
        self.rows = [self._row(p) for p in self.paths]
        self.writes = [w for r in self.rows for w in r.writes]

    # ---- helpers ------------------------------------------------------------------------------------
    def _upvar_ty(self, idx):
        for d in self.co.debug:
            pl = d["pl"]
            if pl["l"] == 1:
                for e in pl["p"]:
                    if isinstance(e, dict) and e.get("f") == idx and e.get("o", "").startswith("{upvar}"):
                        return e.get("t", "")
        return ""

    def _field_index(self, adt, name):
        a = self.F.adts.get(("cucumber", adt))
        if not a:
            return None
        for i, f in enumerate(a["variants"][0]["fields"]):
            if f["name"] == name:
                return i
        return None

    def rooted_in_event(self, t):
        er = self.event_root
        return D.mentions(t, lambda x: x == er)

    def _left_operand(self, t):
        """If t reads `<X as Some>.0(.deref)*.left` of an Option X: return X."""
        x = t
        while isinstance(x, tuple) and x and x[0] == "deref":
            x = x[1]
        if not (isinstance(x, tuple) and len(x) == 3 and x[0] == "field" and x[2] == self.left_idx):
            return None
        y = x[1]
        while isinstance(y, tuple) and y and y[0] in ("deref",):
            y = y[1]
        if isinstance(y, tuple) and len(y) == 3 and y[0] == "field" and y[2] == 0 and isinstance(y[1], tuple) and y[1][0] == "as" and y[1][2] == "Some":
            return y[1][1]
        return None

    def _find_retries_options(self):
        out = set()
        for p in self.paths:
            for a, o in p.conds:
                if a[0] == "bin" and len(a) == 4:
                    for z in (a[2], a[3]):
                        x = self._left_operand(z)
                        if x is not None:
                            out.add(x)
        return out

    def self_path(self, place):
        """Field-name path below the writer for a heap place rooted in `*self` (None otherwise)."""
        idxs = []
        x = place
        while isinstance(x, tuple) and x and x[0] in ("field", "as"):
            if x[0] == "field":
                idxs.append(x[2])
            x = x[1]
        if not (isinstance(x, tuple) and x and x[0] == "deref" and x[1] == self.self_root):
            return None
        idxs.reverse()
        names = []
        cur = self.adt
        for i in idxs:
            a = self.F.adts.get(("cucumber", cur))
            if not a or not isinstance(i, int) or i >= len(a["variants"][0]["fields"]):
                return None
            f = a["variants"][0]["fields"][i]
            names.append(f["name"])
            cur = re.sub(r"<.*$", "", f["ty"])
        return tuple(names)

    def site_of(self, tup):
        key, bb, idx = tup
        b = self.F.bodies.get(key)
        return Site(b, bb, idx) if b is not None else None

    # ---- one row ---------------------------------------------------------------------------------------
    def _row(self, p):
        r = Row(self, p)
        left_pos = None
        not_found = None
        no_retries = None
        odd = False
        saw_retry_atom = False
        for i, (a, o) in enumerate(p.conds):
            if a[0] == "discr":
                adt = self.deep.adt_of.get(a)
                vs = frozenset(o.split("|")) if isinstance(o, str) else None
                if adt in EVENT_ADTS or adt in ("writer::summarize::State", "writer::summarize::Indicator"):
                    if vs is not None:
                        r.ctx[adt] = (r.ctx[adt] & vs) if adt in r.ctx else vs
                    continue
                if adt == "event::StepError":
                    saw_retry_atom = True
                    if vs == frozenset(["NotFound"]):
                        not_found = True
                    elif vs is not None and "NotFound" not in vs:
                        not_found = False if not_found is None else not_found
                    continue
                if adt == "std::result::Result" and self.rooted_in_event(a[1]):
                    if vs is not None:
                        r.ctx[adt] = (r.ctx[adt] & vs) if adt in r.ctx else vs
                    continue
                if adt == "std::option::Option" and a[1] in self.retries_opts:
                    saw_retry_atom = True
                    if o == "None":
                        no_retries = True
                    continue
                x = a[1]
                while isinstance(x, tuple) and x and x[0] in ("deref", "refto"):
                    x = x[1]
                if isinstance(x, tuple) and x and x[0] == "call":
                    nm = re.sub(r"<[^<>]*(<[^<>]*(<[^<>]*>[^<>]*)*>[^<>]*)*>", "", x[1]).replace("::::", "::")
                    r.atoms.append((i, "discr", f"discr({'::'.join(nm.split('::')[-2:])}(..):{adt})"))
                else:
                    r.atoms.append((i, "discr", f"discr({adt})"))
                continue
            if a[0] == "bin" and len(a) == 4 and isinstance(o, bool):
                L = None
                for z, other, side in ((a[2], a[3], "l"), (a[3], a[2], "r")):
                    if self._left_operand(z) is not None:
                        L, c, sd = z, other, side
                if L is not None:
                    saw_retry_atom = True
                    lp = None
                    if c in (("const", 0), ("const", 1)):
                        k = (a[1], c[1], sd)
                        # left on the left side of the comparison
                        lp = {("Le", 0, "l"): not o, ("Eq", 0, "l"): not o, ("Lt", 1, "l"): not o,
                              ("Lt", 0, "r"): o, ("Eq", 0, "r"): not o, ("Le", 1, "r"): o}.get(k)
                    if lp is None:
                        odd = True
                    else:
                        left_pos = lp
                    continue
                r.atoms.append((i, "bin", f"{a[1]}(..)"))
                continue
            if a[0] == "call":
                nm = re.sub(r"<[^<>]*(<[^<>]*(<[^<>]*>[^<>]*)*>[^<>]*)*>", "", a[1]).replace("::::", "::")
                r.atoms.append((i, "call", f"{nm.split('::', 1)[-1] if nm.startswith('std::') else nm}(..)={o}"))
                continue
            r.atoms.append((i, a[0], f"{a[0]}={o}"))
        if saw_retry_atom:
            if odd:
                r.rg = ("odd", False)
            elif no_retries or left_pos is False or not_found is True:
                r.rg = ("final", True)
            elif left_pos is True and not_found is False:
                r.rg = ("retry", True)
            elif left_pos is True and not_found is None:
                r.rg = ("retry", False)   # retried without looking at the error kind
            elif left_pos is None and not_found is False:
                r.rg = ("final?", False)  # decided on the error kind only
        for idx, e in enumerate(p.effects):
            if e[0] != "write":
                continue
            path = self.self_path(e[1])
            if path is None:
                continue
            val = e[2]
            op = "="
            if val[0] == "bin" and val[1] in ("Add", "Sub") and val[2] == _read_term(e[1]):
                if val[3] == ("const", 1):
                    op = "+1" if val[1] == "Add" else "-1"
                elif val[1] == "Add":
                    op = "+n"
            r.writes.append(DW(r, idx, path, op, self.site_of(e[3])))
        return r

    # ---- relevance of a condition for a write ------------------------------------------------------
    def relevant_atoms(self, w):
        """Conditions (not event structure / retry predicate) decided before write `w` on its path whose other outcome
        leads — with the same earlier decisions — to a path that does not perform the same update."""
        out = []
        p = w.row.p
        pos = p.cond_pos
        for (i, kind, descr) in w.row.atoms:
            if pos[i] > w.idx:
                continue
            prefix = list(p.conds[:i])
            atom, outc = p.conds[i]
            for r2 in self.rows:
                q = r2.p
                if len(q.conds) <= i or list(q.conds[:i]) != prefix:
                    continue
                if q.conds[i][0] != atom or q.conds[i][1] == outc:
                    continue
                if not any(w2.path == w.path and w2.op == w.op for w2 in r2.writes):
                    out.append(descr)
                    break
        return out


def _read_term(place):
    k = place[0]
    if k == "deref":
        return ("deref", place[1])
    if k == "field":
        return ("field", _read_term(place[1]), place[2])
    if k == "as":
        return ("as", _read_term(place[1]), place[2])
    if k == "L":
        return ("arg", place[2])
    return place


def table(F, adt):
    key = (id(F), adt)
    if key not in _CACHE:
        _CACHE.clear()
        _CACHE[key] = HandlerTable(F, adt)
    return _CACHE[key]


# ---- the rule helpers (same instance keys as the site-based versions in writers.py) -----------------------

def check_counter_table(F, R, adt, tbl, counters):
    T = table(F, adt)
    seen = set()
    done = set()
    for w in T.writes:
        if w.name not in counters:
            continue
        ctx = w.ctx
        ladt, lvar = W.leaf(ctx)
        pol = w.rg[0] if w.rg else None
        sig = (w.name, w.op, ladt, lvar, pol)
        inst = f"{w.name}{w.op}@{ladt}::{lvar}" + (f"/{pol}" if pol else "")
        for k, v in ctx.items():
            if k.endswith("::Indicator"):
                inst += f"[{'+'.join(sorted(v))}]"
        if sig not in tbl:
            R.violation(f"unexpected/{inst}", w.site, f"counter `{w.name}` is changed ({w.op}) under {ladt}::{lvar}"
                        f"{' on the ' + pol + ' edge' if pol else ''}: not in the counter <-> event table")
            continue
        if w.rg and not w.rg[1]:
            R.violation(f"unexpected/{inst}", w.site, f"counter `{w.name}` is guarded by a retry test that is not `left > 0 && err != NotFound`")
            continue
        seen.add(sig)
        if ladt == "Step":
            routes = T_routes(T, w, "event::Scenario")
            R.check(routes == frozenset(["Background", "Step"]), f"routes/{inst}/bg+step", w.site, "counts background and regular steps",
                    f"`{w.name}` counts only {sorted(routes)} step events")
        if ladt in ("Step", "Hook", "Scenario"):
            fe = T_routes(T, w, "event::Feature")
            R.check(fe == frozenset(["Rule", "Scenario"]), f"routes/{inst}/rule+feature", w.site, "counts rule-level and feature-level scenarios",
                    f"`{w.name}` counts only scenarios reached via Feature::{sorted(fe)}")
        extra = [x for x in T.relevant_atoms(w) if not any(re.search(rx, x) for rx in tbl[sig])]
        R.check(not extra, f"unconditional/{inst}", w.site, "no extra condition on the write",
                f"`{w.name}` {w.op} under {ladt}::{lvar} is additionally conditioned on {sorted(set(extra))}")
        if sig not in done:
            done.add(sig)
            R.ok(f"table/{inst}", w.site, "in table")
    for sig in tbl:
        if sig not in seen:
            name, op, ladt, lvar, pol = sig
            R.violation(f"missing/{name}{op}@{ladt}::{lvar}" + (f"/{pol}" if pol else ""), T.root,
                        f"no write `{name}` {op} under {ladt}::{lvar}{' (' + pol + ')' if pol else ''}: those events are no longer counted")
    return T


def T_routes(T, w, adt):
    """Union over all paths performing the same update (same counter, op, leaf, polarity) of the variants of `adt`."""
    ladt, lvar = W.leaf(w.ctx)
    pol = w.rg[0] if w.rg else None
    out = set()
    for w2 in T.writes:
        if w2.path == w.path and w2.op == w.op and W.leaf(w2.ctx) == (ladt, lvar) and (w2.rg[0] if w2.rg else None) == pol:
            out |= set(w2.ctx.get(adt, ()))
    return frozenset(out)


def check_mandatory(F, R, adt, mandatory):
    """Every path that handles `leaf variant` (while counting is enabled) performs one of the arm's mandatory updates."""
    T = table(F, adt)
    for (leaf_adt, var), names in mandatory.items():
        inst = f"every-path/{leaf_adt.rsplit('::', 1)[-1]}::{var}->{'|'.join(sorted(names))}"
        rows = [r for r in T.rows if r.ctx.get(leaf_adt) == frozenset([var]) and not r.p.cut and
                r.ctx.get("writer::summarize::State", frozenset(["InProgress"])) == frozenset(["InProgress"])]
        if leaf_adt == "std::result::Result":
            rows = [r for r in rows if not any(k in r.ctx for k in EVENT_ADTS)]
        if not rows:
            R.unverifiable(inst, f"no path of {T.co.short} handles {leaf_adt}::{var}")
            continue
        bad = [r for r in rows if not any(w.name in names and w.op in ("+1", "+n") for w in r.writes)]
        R.check(not bad, inst, T.co, f"every path through the {var} arm updates {sorted(names)}",
                f"a path through the {leaf_adt}::{var} arm returns without updating {sorted(names)} (such an event is not counted)")
