"""Deep path tables of the attempt's routines that run a user future inside a tracing span (attempt body, step,
before hook, after hook): per path, which future is instrumented with which span, what is awaited, which events are
sent and where the span-close hand-shake sits — independent of how the code is spelled (helpers such as
`instrument_with_span(fut, span)` or an `async fn wait_for_span_close(waiter, id)` are inlined; `zip` and a tuple
pattern give the same conditions)."""
import re

from . import analysis as A
from . import deep as D
from . import roles
from .mir import Unverifiable, callee_is

SPAN_RX = r"(scenario_span|step_span|hook_span)$"
WAIT_RX = r"SpanCloseWaiter::wait_for_span_close$"
INSTR_RX = r"Instrument::instrument$"


def _strip(t):
    while isinstance(t, tuple) and t and t[0] in ("ref", "deref", "refto"):
        t = t[1]
    return t


def upvar_types(body):
    out = {}
    for d in body.debug:
        pl = d["pl"]
        if pl["l"] == 1:
            for e in pl["p"]:
                if isinstance(e, dict) and "f" in e and e.get("o", "").startswith("{upvar}"):
                    out.setdefault(e["f"], e.get("t", ""))
    return out


def _mentions_tracing(F, b, stop=()):
    for nb in roles.family(F, b, stop=stop):
        for _ in nb.calls(lambda t: callee_is(t, INSTR_RX, WAIT_RX)):
            return True
    return False


class Row:
    pass


class Routine:
    """One `async fn` of the attempt tree whose coroutine instruments a future."""

    def __init__(self, F, co, emit_names, stop=()):
        self.F, self.body = F, co
        nested = [nb for nb in F.nested(co) if nb is not co and nb.is_coroutine and not _mentions_tracing(F, nb, stop)]
        self.user = {nb.name for nb in nested}
        rx = "|".join([SPAN_RX, WAIT_RX] + ["^" + re.escape(n) + "$" for n in sorted(self.user)])
        self.paths = D.Deep(F, co, opaque=rx, max_paths=3000).run()
        self.emit_names = emit_names
        self.rows = [self._row(p) for p in self.paths]
        self.upv = upvar_types(co)

    def _row(self, p):
        r = Row()
        r.p = p
        r.instr = [(i, e[1], _strip(e[2]) if e[2] is not None else None) for i, e in enumerate(p.effects) if e[0] == "instrumented"]
        r.awaits = [(i, e[1]) for i, e in enumerate(p.effects) if e[0] == "await"]
        r.waits = [(i, e) for i, e in enumerate(p.effects) if e[0] == "call" and re.search(WAIT_RX, e[1])]
        r.sends = []
        depth_emit = 0
        for i, e in enumerate(p.effects):
            if e[0] == "enter" and e[1] in self.emit_names:
                depth_emit += 1
            elif e[0] == "leave" and e[1] in self.emit_names:
                depth_emit -= 1
            elif e[0] == "call" and depth_emit > 0 and re.search(r"UnboundedSender(::<.*>)?::unbounded_send$", e[1]):
                r.sends.append((i, e))
        return r

    def span_kind(self, span):
        """('hook_span', 'Before') / ('step_span', None) / ('scenario_span', None) / None for an unknown span term."""
        span = _strip(span)
        if not (isinstance(span, tuple) and span and span[0] == "call" and re.search(SPAN_RX, span[1])):
            return None
        kind = span[1].rsplit("::", 1)[-1]
        hk = sorted({x[2] for x in D.subterms(span) if D.is_variant(x, "event::HookType")})
        return kind, ("+".join(hk) if hk else None)

    def user_await_index(self, row, ins):
        """Index of the await (or caught panic) of the future instrumented at `ins` = (i, fut, span)."""
        i0 = ins[0]
        for i, e in enumerate(row.p.effects):
            if i > i0 and e[0] in ("await", "caught-panic"):
                return i
        return None

    def covered(self, fut, co_name):
        """Does the instrumented future term contain the nested coroutine `co_name` (directly, or as the product of a
        closure it contains)?"""
        for x in D.subterms(fut):
            if x[0] == "coroutine" and x[1] == co_name:
                return True
            if x[0] == "closure" and isinstance(x[1], str) and co_name.startswith(x[1] + "::"):
                return True
        return False


def routines(F):
    rs, root, tree = roles.attempt_tree(F)
    emit_names = {b.name for b in roles.emitters(F, tree).values()}
    out = []
    asyncs = [F.parent_body(b) for b in tree if b.is_coroutine and F.parent_body(b) is not None and F.parent_body(b).kind in ("Fn", "AssocFn")]
    for b in tree:
        if not b.is_coroutine:
            continue
        par = F.parent_body(b)
        if par is None or par.kind not in ("Fn", "AssocFn"):
            continue
        stop = [x for x in asyncs if x is not par]
        if not any(True for nb in roles.family(F, b, stop=stop) for _ in nb.calls(lambda t: callee_is(t, INSTR_RX))):
            continue
        # helpers of a routine are inlined into the routine's table, they are not routines themselves
        if not any(nb is not b and nb.is_coroutine for nb in F.nested(b)) and not any(True for _ in b.calls(lambda t: callee_is(t, SPAN_RX))):
            continue
        out.append(Routine(F, b, emit_names, stop))
    return out


_CACHE = {}


def table(F):
    k = id(F)
    if k not in _CACHE:
        _CACHE.clear()
        _CACHE[k] = routines(F)
    return _CACHE[k]
