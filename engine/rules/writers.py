"""Shared analyses of statistics-keeping writers (Summarize, Libtest): counter write sites, their event-variant
context (G4 composed along the call chain) and the retry predicate guarding them."""
import re

from . import analysis as A
from . import roles
from .mir import Site, Unverifiable, callee_is, const_int, op_fn, op_local, op_place, place_fields, place_str

STATS_GETTERS = ("passed_steps", "skipped_steps", "failed_steps", "retried_steps", "parsing_errors", "hook_errors")
VERDICT_GETTERS = ("failed_steps", "parsing_errors", "hook_errors")


def stats_impls(F):
    """self_adt -> {method -> body} for every `impl writer::Stats for T` in the crate."""
    out = {}
    for b in F.crate_bodies():
        if b.impl and b.impl.get("trait") == "writer::Stats" and not b.impl.get("provided") and b.kind == "AssocFn":
            out.setdefault(b.impl["self_adt"], {})[b.name.rsplit("::", 1)[-1]] = b
    return out


def getter_field(body):
    """If a Stats getter returns a field path of `self` directly: tuple of field names, else None."""
    sl = A.slice_back(body, start_locals=[0])
    if sl.calls:
        return None
    paths = set()
    for pl in sl.places:
        cp = A.canon_place(body, pl)
        if cp["l"] == 1:
            fs = tuple(n for _, n in place_fields(cp))
            if fs:
                paths.add(fs)
    if len(paths) == 1:
        return paths.pop()
    return None


def getter_field_deep(F, body):
    """getter_field through private accessor methods of the same type (`self.steps_stats().passed`): on the getter's deep path table
    (own inherent methods inlined) the one row returns a field path of `self`."""
    from . import deep as D
    from .termtypes import _field_map, adt_path
    adt = (body.impl or {}).get("self_adt")
    own = lambda cb: bool(cb.impl and cb.impl.get("self_adt") == adt and not cb.impl.get("trait"))
    rows = D.Deep(F, body, max_paths=10, inline_only=own).run()
    if len(rows) != 1 or rows[0].cut or rows[0].conds or any(e[0] == "call" for e in rows[0].effects):
        return None
    t, idxs = rows[0].ret, []
    while isinstance(t, tuple) and t:
        if t[0] in ("ref", "refto", "deref", "conv") and len(t) == 2:
            t = t[1]
        elif t[0] == "field" and isinstance(t[2], int):
            idxs.append(t[2])
            t = t[1]
        else:
            break
    if t not in (("arg", 1), ("L", 0, 1)) or not idxs:
        return None
    fm, names, cur = _field_map(F), [], adt
    for i in reversed(idxs):
        ent = fm.get((cur, i))
        if ent is None:
            return None
        names.append(ent[0])
        cur = adt_path(ent[1])
    return tuple(names)


def own_state_stats(F):
    """Types whose verdict getters read their own fields: T -> {getter -> field path}."""
    out = {}
    for adt, ms in stats_impls(F).items():
        fields = {}
        for g in STATS_GETTERS:
            if g in ms:
                fp = getter_field(ms[g]) or getter_field_deep(F, ms[g])
                if fp is not None:
                    fields[g] = fp
        if len(fields) == len(STATS_GETTERS):
            out[adt] = fields
    return out


def handler_bodies(F, adt):
    """Bodies belonging to T's event handling: `<T as Writer>::handle_event` (+ nested) and inherent methods of T
    reachable from it through crate-local calls."""
    roots = [b for a, b in roles.trait_impl_methods(F, r"^writer::Writer$", "handle_event") if a == adt]
    if len(roots) != 1:
        raise Unverifiable(f"Writer::handle_event impl for {adt}: {len(roots)}")
    seen = {}
    work = list(F.nested(roots[0]))
    while work:
        b = work.pop()
        if b.key in seen:
            continue
        seen[b.key] = b
        for s, t in b.calls():
            cb = F.callee_body(t, b.crate)
            if cb is not None and cb.impl and cb.impl.get("self_adt") == adt and not cb.impl.get("trait"):
                for nb in F.nested(cb):
                    if nb.key not in seen:
                        work.append(nb)
    return roots[0], list(seen.values())


class CounterWrite:
    def __init__(self, body, site, path, op, stmt):
        self.body, self.site, self.path, self.op, self.stmt = body, site, path, op, stmt

    @property
    def name(self):
        return ".".join(self.path)

    def __repr__(self):
        return f"<{self.name} {self.op} @{self.site.loc}>"


def self_field_path(F, body, pl, adt, depth=0):
    """If the place designates a field (path) of the writer `adt` (through `self`, a `&mut self` alias or a captured
    `self`), return the tuple of field names below the writer, else None."""
    cp = A.canon_place(body, pl)
    fs = place_fields(cp)
    for i, (owner, name) in enumerate(fs):
        if owner == adt:
            return tuple(n for _, n in fs[i:])
    # edition-2024 closures capture disjoint fields: `*(_1.k)` where upvar k = `&mut self.field` in the parent
    if cp["l"] == 1 and body.kind in A.NESTED_KINDS and cp["p"] and depth < 6:
        e = cp["p"][0]
        if isinstance(e, dict) and "f" in e and e["o"].startswith("{upvar}"):
            parent, ups = A.closure_upvar_operands(F, body)
            if parent is not None and e["f"] in ups:
                src = op_place(ups[e["f"]])
                if src is not None:
                    rest = list(cp["p"][1:])
                    new = {"l": src["l"], "p": list(src["p"]) + rest}
                    return self_field_path(F, parent, new, adt, depth + 1)
    return None


def counter_writes(F, adt, bodies):
    out = []
    for b in bodies:
        for site, st in b.assigns():
            if not st["pl"]["p"]:
                continue
            path = self_field_path(F, b, st["pl"], adt)
            if path is None:
                continue
            rv = st["rv"]
            op = "="
            if rv["k"] == "use":
                src = op_place(rv["op"])
                if src is not None:
                    sd = b.single_def(src["l"])
                    if sd and sd[1] == "assign" and sd[2]["rv"]["k"] == "bin":
                        brv = sd[2]["rv"]
                        if brv["op"] in ("AddWithOverflow", "Add") and const_int(brv["b"]) == 1:
                            a = op_place(brv["a"])
                            if a is not None and self_field_path(F, b, a, adt) == path:
                                op = "+1"
                        elif brv["op"] in ("SubWithOverflow", "Sub") and const_int(brv["b"]) == 1:
                            a = op_place(brv["a"])
                            if a is not None and self_field_path(F, b, a, adt) == path:
                                op = "-1"
                        elif brv["op"] in ("AddWithOverflow", "Add"):
                            op = "+n"
            out.append(CounterWrite(b, site, path, op, st))
    return out


def vc_by_adt(body, site):
    """Variant constraints at a site keyed by ADT (std Option/Poll/ControlFlow excluded)."""
    vc = A.vc_at(body, site)
    adts = body._reach_cache.get("vc_adt", {})
    out = {}
    for pk, vs in vc.items():
        adt = adts.get(pk)
        if not adt or adt in ("std::option::Option", "std::task::Poll", "std::ops::ControlFlow"):
            continue
        if adt in out:
            out[adt] = out[adt] & vs
        else:
            out[adt] = vs
    return out


def context(F, body, site, bodies, root, depth=0):
    """Event-variant context of a site: constraints at the site, intersected with those of the (unique) way the
    enclosing body is entered — closure creation site, or the call sites of the method (union over call sites)."""
    ctx = dict(vc_by_adt(body, site))
    if depth > 8 or body is root:
        return ctx
    if body.kind in A.NESTED_KINDS:
        cc = A.closure_creation(F, body)
        if cc is None:
            return ctx
        parent, csite, _ = cc
        up = context(F, parent, csite, bodies, root, depth + 1)
    else:
        sites = []
        for b in bodies:
            for s, t in b.calls():
                if F.callee_body(t, b.crate) is body:
                    sites.append((b, s))
        if not sites:
            return ctx
        ups = [context(F, b, s, bodies, root, depth + 1) for b, s in sites]
        up = {}
        for adt in set.intersection(*[set(u) for u in ups]) if ups else set():
            vs = frozenset()
            for u in ups:
                vs = vs | u[adt]
            up[adt] = vs
    for adt, vs in up.items():
        ctx[adt] = ctx[adt] & vs if adt in ctx else vs
    return ctx


# ---- the retry predicate ----------------------------------------------------------------------------

def left_positive(atom, outcome):
    """Canonicalise a comparison atom on `Retries.left` with 0: returns True if (atom,outcome) means left > 0,
    False if it means left == 0, None if the atom is not such a comparison."""
    m = re.match(r"^(Gt|Ne|Ge|Lt|Eq|Le)\((.*),(.*)\)$", atom)
    if not m or outcome not in ("true", "false"):
        return None
    op, a, b = m.groups()
    val = outcome == "true"
    if re.search(r"\.left$", a) and b in ("0", "1"):
        if (op, b) in (("Gt", "0"), ("Ne", "0"), ("Ge", "1")):
            return val
        if (op, b) in (("Eq", "0"), ("Le", "0"), ("Lt", "1")):
            return not val
    if re.search(r"\.left$", b) and a in ("0", "1"):
        if (op, a) in (("Lt", "0"), ("Ne", "0"), ("Le", "1")):
            return val
        if (op, a) in (("Eq", "0"), ("Ge", "0"), ("Gt", "1")):
            return not val
    return None


def predicate_table(F, kbody):
    """Truth table of a small predicate closure over the atoms (left>0, err is NotFound):
    list of (left_positive|None, not_found|None, result)."""
    rows = []
    for p in A.enumerate_paths(kbody):
        lp, nf = None, None
        for a, o in p.decisions:
            v = left_positive(a, o)
            if v is not None:
                lp = v
            if re.search(r"event::StepError\)$", a) and a.startswith("discr("):
                nf = (o == "NotFound")
            elif re.search(r"std::option::Option\)$", a) and a.startswith("discr(") and o == "None" and nf is None:
                nf = "absent"       # an optional error that is not there (a hook failure handled by a shared helper): it is not NotFound
        rows.append((lp, nf, p.ret))
    return rows


def is_canonical_retry_predicate(rows):
    """True iff the table is exactly `left > 0 && err != NotFound`."""
    if not rows:
        return False
    for lp, nf, ret in rows:
        if not isinstance(ret, bool):
            return False
        if lp is None:
            return False
        expect = lp and (nf is False or nf == "absent")
        if lp and nf is None:
            return False
        if ret != expect:
            return False
    return any(r for _, _, r in rows)


def retry_guard(F, body, site):
    """Polarity of the retry predicate guarding `site` (in `body`):
      ('retry', table) — site executes only if `retries is Some ∧ left>0 ∧ err≠NotFound`
      ('final', table) — site executes only if that predicate is false
      None            — no guard of the site is the retry predicate."""
    for g in A.guards_of(body, site):
        d = g.cond_def()
        if not d or d[0] != "call":
            continue
        _, csite, t = d
        pol = g.polarity()
        if pol is None:
            continue
        k = None
        if callee_is(t, r"Option::<.*>::is_some_and$"):
            k = t["args"][1]
            positive = True
        elif callee_is(t, r"Option::<.*>::is_some$", r"Option::<.*>::is_none$"):
            recv = op_local(t["args"][0])
            # recv = &x where x = Option::filter(r, K)
            x = A.canon_place(body, {"l": recv, "p": ["*"]}) if recv is not None else None
            fsd = body.single_def(x["l"]) if x is not None and not x["p"] else None
            if fsd and fsd[1] == "call" and callee_is(fsd[2], r"Option::<.*>::filter$"):
                k = fsd[2]["args"][1]
                positive = callee_is(t, r"is_some$")
            else:
                continue
        else:
            continue
        kb = A.closure_of_operand(F, body, k)
        if kb is None:
            continue
        rows = predicate_table(F, kb)
        if not any(lp is not None for lp, _, _ in rows):
            continue
        holds = (pol is True) == positive
        return ("retry" if holds else "final", rows, kb)
    return None


def all_retry_predicates(F):
    """Every closure in the crate that compares `Retries.left` (sibling rule C01.R6)."""
    out = []
    for b in F.crate_bodies():
        if b.kind != "Closure":
            continue
        reads_left = False
        for site, st in b.assigns():
            for pl in A.rvalue_places(st["rv"]):
                if ("event::Retries", "left") in place_fields(pl):
                    reads_left = True
        if reads_left and b.locals[0] == "bool":
            out.append(b)
    return out


def is_plain_left_positive(kb):
    """The closure is exactly `|r| r.left > 0` (no StepError in scope): `_0 = Gt(r.left, 0)`."""
    sd = kb.single_def(0)
    if not sd or sd[1] != "assign" or sd[2]["rv"]["k"] != "bin":
        return False
    rv = sd[2]["rv"]
    atom = f"{rv['op']}({A.describe_operand(kb, rv['a'])},{A.describe_operand(kb, rv['b'])})"
    if left_positive(atom, "true") is not True:
        return False
    return not any("StepError" in t for t in kb.locals)


LEAF_ORDER = ["event::Step", "event::Hook", "event::Scenario", "event::Rule", "event::Feature", "event::Cucumber",
              "std::result::Result"]


def leaf(ctx):
    """Most specific event ADT constrained at a site: (short adt, 'V1+V2')."""
    for adt in LEAF_ORDER:
        if adt in ctx:
            if adt == "std::result::Result" and ctx[adt] != frozenset(["Err"]):
                continue
            if adt == "event::Cucumber" and ctx[adt] == frozenset(["Feature"]):
                continue
            return adt.rsplit("::", 1)[-1], "+".join(sorted(ctx[adt]))
    return None, None


def arm_entry_targets(body, leaf_adt, variant):
    """Targets of switch edges in `body` that establish `leaf_adt == variant`."""
    out = []
    for bb in sorted(body.live_blocks):
        t = body.blocks[bb]["term"]
        if t["k"] != "switch":
            continue
        l = op_local(t["discr"])
        if l is None:
            continue
        d = A.local_def_desc(body, l)
        if d[0] != "discr" or d[2] != leaf_adt:
            continue
        vmap = {v: n for v, n in d[3]}
        listed = {v for v, _ in t["targets"]}
        for v, tg in t["targets"]:
            if vmap.get(v) == variant:
                out.append((bb, tg))
        rest = [n for v, n in vmap.items() if v not in listed]
        if rest == [variant]:
            out.append((bb, t["otherwise"]))
    return out


def check_mandatory(F, R, adt, ws, mandatory):
    """Every path through the arm of `leaf variant` must perform one of the arm's mandatory counter writes."""
    for (leaf_adt, var), names in mandatory.items():
        sites = [w for w in ws if w.name in names]
        bodies = {w.body.key: w.body for w in sites}
        inst = f"every-path/{leaf_adt.rsplit('::', 1)[-1]}::{var}->{'|'.join(sorted(names))}"
        if len(bodies) != 1:
            R.violation(inst, None, f"writes of {sorted(names)} are spread over {len(bodies)} bodies")
            continue
        b = list(bodies.values())[0]
        entries = arm_entry_targets(b, leaf_adt, var)
        stops = {w.site.bb for w in sites if w.body is b}
        if not entries:
            # the arm's body was extracted into a helper method: if every path through the helper performs one of the
            # writes, each call of the helper counts as the write in its caller
            all_paths = not b.entry_reaches_return(stop=[w.site for w in sites if w.body is b])
            callers = []
            for cbody in F.crate_bodies():
                for cs, ct in cbody.calls():
                    if F.callee_body(ct, cbody.crate) is b:
                        callers.append((cbody, cs))
            lifted = [(cbody, cs) for cbody, cs in callers if arm_entry_targets(cbody, leaf_adt, var)]
            if all_paths and len({cb.key for cb, _ in lifted}) == 1:
                b = lifted[0][0]
                entries = arm_entry_targets(b, leaf_adt, var)
                stops = {cs.bb for _, cs in lifted}
        if not entries:
            R.unverifiable(inst, f"no switch edge establishing {leaf_adt}::{var} in {b.short}")
            continue
        bad = None
        for sw, tg in entries:
            seen, work = set(), [tg]
            while work:
                x = work.pop()
                if x in seen or x in stops:
                    continue
                seen.add(x)
                if b.blocks[x]["term"]["k"] == "return":
                    bad = (sw, tg)
                    break
                work.extend(b.succ[x])
        R.check(bad is None, inst, Site(b, entries[0][0], "T"), f"every path through the {var} arm updates {sorted(names)}",
                f"a path through the {leaf_adt}::{var} arm returns without updating {sorted(names)} (such an event is not counted)")


def check_counter_table(F, R, adt, table, counters):
    """C12.R1 / C14.R3: the observed set of (counter, op, leaf variant, retry polarity) must equal `table`;
    step-level counters must see Background+Step and Rule+Scenario routes; no extra condition on a write."""
    root, bodies = handler_bodies(F, adt)
    ws = [w for w in counter_writes(F, adt, bodies) if w.name in counters]
    seen = set()
    for w in ws:
        ctx = context(F, w.body, w.site, bodies, root)
        ladt, lvar = leaf(ctx)
        rg = retry_guard(F, w.body, w.site)
        pol = rg[0] if rg else None
        sig = (w.name, w.op, ladt, lvar, pol)
        inst = f"{w.name}{w.op}@{ladt}::{lvar}" + (f"/{pol}" if pol else "")
        for k, v in ctx.items():
            if k.endswith("::Indicator"):
                inst += f"[{'+'.join(sorted(v))}]"
        if sig not in table:
            R.violation(f"unexpected/{inst}", w.site, f"counter `{w.name}` is changed ({w.op}) under {ladt}::{lvar}"
                        f"{' on the ' + pol + ' edge' if pol else ''}: not in the counter <-> event table")
            continue
        seen.add(sig)
        if ladt == "Step":
            sc = ctx.get("event::Scenario", frozenset())
            R.check(sc == frozenset(["Background", "Step"]), f"routes/{inst}/bg+step", w.site, "counts background and regular steps",
                    f"`{w.name}` counts only {sorted(sc)} step events")
        if ladt in ("Step", "Hook", "Scenario"):
            fe = ctx.get("event::Feature", frozenset())
            R.check(fe == frozenset(["Rule", "Scenario"]), f"routes/{inst}/rule+feature", w.site, "counts rule-level and feature-level scenarios",
                    f"`{w.name}` counts only scenarios reached via Feature::{sorted(fe)}")
        extra = []
        for g in A.guards_of(w.body, w.site):
            d = g.cond_def()
            if d is None or d[0] == "multi":
                continue
            if d[0] == "discr":
                # matching on event ADTs / the writer's state is what the table is about; any other match is an extra condition
                if d[2].startswith("event::") or d[2] == "writer::summarize::State" or d[2] in ("std::result::Result", "std::option::Option") and _is_event_place(w.body, d[1]):
                    continue
                atom = f"discr({d[2]})"
                if any(re.search(rx, atom) for rx in table[sig]):
                    continue
                extra.append(atom)
                continue
            if rg and d[0] == "call" and callee_is(d[2], r"Option::<.*>::(is_some|is_none|is_some_and)$") and pol:
                sl = A.slice_back(w.body, [d[2]["args"][0]])
                if sl.has_call(r"Option::<.*>::filter$") or callee_is(d[2], r"is_some_and$"):
                    continue
            atom = A.describe_operand(w.body, g.term["discr"])
            if any(re.search(rx, atom) for rx in table[sig]):
                continue
            extra.append(atom)
        R.check(not extra, f"unconditional/{inst}", w.site, "no extra condition on the write",
                f"`{w.name}` {w.op} under {ladt}::{lvar} is additionally conditioned on {extra}")
        R.ok(f"table/{inst}", w.site, "in table")
    for sig in table:
        if sig not in seen:
            name, op, ladt, lvar, pol = sig
            R.violation(f"missing/{name}{op}@{ladt}::{lvar}" + (f"/{pol}" if pol else ""), root,
                        f"no write `{name}` {op} under {ladt}::{lvar}{' (' + pol + ')' if pol else ''}: those events are no longer counted")
    return root, bodies, ws


def _is_event_place(body, pl):
    """Does the matched place hold (part of) the incoming event / parser result — as opposed to writer-side bookkeeping?"""
    cp = A.canon_place(body, pl)
    ty = body.locals[cp["l"]]
    if re.search(r"event::(Event|Cucumber|Feature|Rule|Scenario|RetryableScenario|Step|Hook)\b|parser::Error", ty):
        return True
    for e in cp["p"]:
        if isinstance(e, dict) and e.get("o", "").startswith("event::"):
            return True
    # results of as_deref()/split() on the event
    sd = body.single_def(cp["l"])
    if sd and sd[1] == "call" and re.search(r"event::|parser::Error", body.locals[cp["l"]]):
        return True
    return False
