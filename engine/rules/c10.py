"""C10 — panics in user code are contained and reported (DESIGN §4 C10)."""
import re

from . import analysis as A
from . import roles
from .mir import Site, Unverifiable, callee_is, callee_path, const_int, op_fn, op_local, op_place, place_fields, place_str

CFGS = {"quick": ["default", "all"], "thorough": ["default", "all", "nodefault", "tracing"]}

EXPLANATION = """
Static rules over the MIR of the attempt routine: (R1) wrap rule: every user-callback call site — `<W as World>::new`,
a call through the Before/After hook generics, an indirect call through a `step::Step<W>` fn pointer — lies in a
coroutine whose value flows only into `AssertUnwindSafe(_)` -> `FutureExt::catch_unwind` -> await in its parent, and
the user future is awaited inside that coroutine (so construction and polling are both covered); (R2) payload
preserved: the Err of each catch_unwind reaches the failure value (StepError::Panic / BeforeHookPanicked.panic_info /
after-hook Info) unmodified, never replaced by a constant; (R3) panic-hook pairing in EXECUTE: the hook taken at
entry is the argument of a set_hook that lies on every normal path to return, and the silencing set_hook precedes
the first suspension and the first emission; (R4) "others unaffected / run ends" follows from C02/C03 ordering
rules given R1 (no unwinding path out of user code).
Added after the second seeded round: (R4) the deferred failure event is the Failed event of the kind of step / hook that failed (= C02.R3).
"""
DECLINED = ["panics inside user-supplied which_scenario / retry_options / filter closures (not step, hook or World code)",
            "what the writers print for a payload"]
ASSUMPTIONS = ["FutureExt::catch_unwind catches every unwinding panic raised while constructing-in-poll or polling the wrapped future"]


def user_callback_sites(F):
    """(body, Site, term, kind) of user-callback calls under the runner."""
    out = []
    for b in F.crate_bodies():
        if not (b.name.startswith("runner::") or b.name.startswith("<runner::")):
            continue
        for s, t in b.calls():
            f = op_fn(t["func"])
            if f is None:
                if re.search(r"fn\(&'a mut W, step::Context\)", t["fty"]) or re.search(r"fn\(&.*mut W,\s*step::Context\)", t["fty"]):
                    out.append((b, s, t, "step-fn"))
                continue
            tr = f.get("trait", "")
            if tr.endswith("World") and f["path"].endswith("::new") and re.match(r"^[A-Z]\w*$", f.get("self", "")):
                out.append((b, s, t, "World::new"))
            elif re.search(r"ops::Fn(Mut|Once)?$", tr) and re.match(r"^&?[A-Z]\w*$", f.get("self", "")) and re.search(r"&'?\w* ?mut W\b|&mut W\b", f.get("full", "")):
                out.append((b, s, t, "hook:" + f["self"].lstrip("&")))
    return out


def wrapped(F, b, s):
    """Is coroutine `b` (containing user-callback site s) wrapped as AssertUnwindSafe(b).catch_unwind().await in its parent?
    Returns (ok, why, catch_site)."""
    if not b.is_coroutine:
        return False, f"the call is in {b.short}, which is not an async block/fn body", None
    # user future awaited inside b
    awaited = False
    for aw in A.awaits(b):
        if aw.src_op is None:
            continue
        sl = A.slice_back(b, [aw.src_op])
        if s in sl.sites:
            awaited = True
    if not awaited:
        return False, "the future returned by the user callback is not awaited inside the wrapped block", None
    cc = A.closure_creation(F, b)
    if cc is None:
        return False, "creation site of the async block not found", None
    P, cs, st = cc
    lc = st["pl"]["l"]
    ok, why, site = _guarded_in(F, P, lambda pl: A.canon_place(P, pl)["l"] == lc and not A.canon_place(P, pl)["p"], lc)
    if ok:
        return ok, why, site
    # ... or the block is handed (and only handed) to a private unwind-guard helper — `catch_panic(async { user().await }).await` —
    # whose own body puts exactly that parameter under AssertUnwindSafe(..).catch_unwind() and awaits it
    uses, aliases = A.forward_uses(P, lc)
    if len(uses) == 1:
        us, ut, ui = uses[0]
        G = F.callee_body(ut, P.crate)
        if G is not None and ui is not None:
            gb = roles.coroutine_of(F, G) if any(c.is_coroutine for c in F.children.get(G.key, [])) else G
            pidx = ui + 1

            def is_param(pl, gb=gb, G=G, pidx=pidx):
                db, cp = A.canon_place_deep(F, gb, pl)
                return db is G and cp["l"] == pidx and not [e for e in cp["p"] if e != "*"]
            ok2, why2, site2 = _guarded_in(F, gb, is_param, None)
            awaited = any(aw.src_op is not None and us in A.slice_back(P, [aw.src_op]).sites for aw in A.awaits(P)) or not gb.is_coroutine
            if ok2 and awaited:
                return True, f"{G.short.rsplit('::', 1)[-1]}(async {{ user().await }}).await, where the helper guards its argument with catch_unwind", us
            if ok2 and not awaited:
                return False, f"the future returned by {G.short.rsplit('::', 1)[-1]} is not awaited", None
    return ok, why, site


def _guarded_in(F, P, is_block, lc):
    """In body P: the value selected by `is_block(place)` flows into exactly one AssertUnwindSafe(..), that into catch_unwind, and the
    resulting future is awaited in P; (if `lc` is given) the block value has no other use."""
    aus = []
    for site, st2 in P.assigns(lambda st2: st2["rv"]["k"] == "agg" and st2["rv"].get("adt") == "std::panic::AssertUnwindSafe"):
        op = st2["rv"]["ops"][0]
        pl = op_place(op)
        if pl is not None and is_block(pl):
            aus.append((site, st2))
    if len(aus) != 1:
        return False, f"the async block flows into {len(aus)} AssertUnwindSafe wrappers", None
    la = aus[0][1]["pl"]["l"]
    # other uses of the block value
    if lc is not None:
        uses, aliases = A.forward_uses(P, lc)
        if uses:
            return False, f"the async block is also passed to {[callee_path(t) for _, t, _ in uses]}", None
    cus = []
    for site, t in P.calls(lambda t: callee_is(t, r"FutureExt::catch_unwind$")):
        pl = op_place(t["args"][0])
        if pl is not None and A.canon_place(P, pl)["l"] == la:
            cus.append((site, t))
    if len(cus) != 1:
        return False, f"AssertUnwindSafe(block) is passed to catch_unwind {len(cus)} times", None
    # its result is awaited in P
    aw_ok = False
    for aw in A.awaits(P):
        if aw.src_op is None:
            continue
        sl = A.slice_back(P, [aw.src_op])
        if cus[0][0] in sl.sites:
            aw_ok = True
    if not aw_ok:
        return False, "the catch_unwind future is not awaited", None
    return True, "AssertUnwindSafe(async { user().await }).catch_unwind().await", cus[0][0]


def r1(F, R):
    sites = user_callback_sites(F)
    kinds = {}
    for b, s, t, kind in sites:
        ok, why, cu = wrapped(F, b, s)
        root = F.root_fn(b).short.rsplit("::", 1)[-1]
        kk = "hook" if kind.startswith("hook:") else kind
        kinds[kk] = kinds.get(kk, 0) + len(roles.routines_of(F, b))    # (a site in a shared private helper counts once per routine using it)
        R.check(ok, f"wrapped/{kind}@{root}", s, why, f"user callback `{kind}` in {root} is not contained: {why} — a panic there unwinds through the runner")
    R.check(kinds.get("World::new", 0) >= 2 and kinds.get("step-fn", 0) >= 1 and kinds.get("hook", 0) >= 2, "callback-sites-found", None,
            f"user-callback sites: {kinds}", f"user-callback sites found: {kinds}; expected World::new x2, step fn, before and after hook")
    R.floor(5)


def r2(F, R):
    rs = roles.run_scenario(F)
    tree = set()
    work = [F.root_fn(rs)]
    while work:
        x = work.pop()
        if x.key in tree:
            continue
        tree.add(x.key)
        for nb in F.nested(x):
            tree.add(nb.key)
            for s, t in nb.calls():
                cb = F.callee_body(t)
                if cb is not None and (cb.name.startswith("runner::basic::") or cb.name.startswith("<runner::basic::")) and not (cb.impl or {}).get("trait") and cb.key not in tree:
                    work.append(cb)     # Executor methods and the module's private helpers (`catch_panic(fut)`)
    bodies = [F.bodies[k] for k in tree]
    cus = [(b, s, t) for b in bodies for s, t in b.calls(lambda t: callee_is(t, r"FutureExt::catch_unwind$"))]
    # (that every user callback sits under one of them is R1's wrap rule; how many textual sites there are is a matter of style —
    # five inline guards, or one `catch_panic` helper)
    R.check(len(cus) >= 1, "catch-sites", None, f"{len(cus)} catch_unwind site(s)", "no catch_unwind site in the attempt routine")
    # sinks: StepError::Panic aggregates, ExecutionFailure::BeforeHookPanicked.panic_info, after-hook Err tuple
    sinks = []
    for b in bodies:
        for s, st in b.assigns(lambda st: st["rv"]["k"] == "agg" and st["rv"].get("agg") == "adt"):
            rv = st["rv"]
            if rv["adt"] == "event::StepError" and rv["variant"] == "Panic":
                sinks.append((b, s, rv["ops"][0], "StepError::Panic"))
            if rv["adt"] == "runner::basic::ExecutionFailure" and rv["variant"] == "BeforeHookPanicked":
                f = dict(zip(rv["fields"], rv["ops"]))
                sinks.append((b, s, f["panic_info"], "BeforeHookPanicked.panic_info"))
    def contains_catch(kb, depth=0):
        """catch_unwind is called in kb, its nested bodies, or (two levels of) the module's private helpers they call."""
        if kb is None:
            return False
        for nb in F.nested(kb):
            for _, t2 in nb.calls():
                if callee_is(t2, r"FutureExt::catch_unwind$"):
                    return True
                sub = F.callee_body(t2, nb.crate)
                if sub is not None and depth < 2 and sub.key in tree and sub is not kb and contains_catch(sub, depth + 1):
                    return True
        return False

    def payload_slices(b, op):
        """deep slices of the operand; if it is a parameter of a local closure (`let failed = |info| ..; failed(x)`), also of the
        arguments the closure is called with in its creating body."""
        out = [(b, A.deep_slice(F, b, [op]))]
        l = op_local(op)
        if b.kind == "Closure" and l is not None and 2 <= A.canon_place(b, {"l": l, "p": []})["l"] <= b.arg_count and not A.canon_place(b, {"l": l, "p": []})["p"]:
            pidx = A.canon_place(b, {"l": l, "p": []})["l"] - 2
            cc = A.closure_creation(F, b)
            if cc is not None:
                P, cs, st = cc
                uses, aliases = A.forward_uses(P, st["pl"]["l"])
                for us, ut, ui in uses:
                    if callee_is(ut, r"ops::Fn(Once|Mut)?::call(_once|_mut)?$") and ui == 0 and len(ut["args"]) > 1:
                        tl = op_local(ut["args"][1])
                        tsd = P.single_def(tl) if tl is not None else None
                        if tsd and tsd[1] == "assign" and tsd[2]["rv"]["k"] == "agg" and tsd[2]["rv"].get("agg") == "tuple" and pidx < len(tsd[2]["rv"]["ops"]):
                            out.append((P, A.deep_slice(F, P, [tsd[2]["rv"]["ops"][pidx]])))
        # ... or a parameter of a private constructor fn (`ExecutionFailure::before_hook_panicked(world, info)`): the arguments at its call sites
        if b.kind in ("Fn", "AssocFn") and l is not None:
            cp = A.canon_place(b, {"l": l, "p": []})
            if 1 <= cp["l"] <= b.arg_count and not cp["p"]:
                for site in F.callers_of(b):
                    t = site.body.term(site.bb) if hasattr(site.body, "term") else None
                    if t and t.get("k") == "call" and cp["l"] - 1 < len(t["args"]):
                        out.append((site.body, A.deep_slice(F, site.body, [t["args"][cp["l"] - 1]])))
        return out

    for b, s, op, name in sinks:
        from_catch = from_fmt = False
        for sb, ds in payload_slices(b, op):
            from_catch = from_catch or any(callee_is(t, r"FutureExt::catch_unwind$") for _, t in ds.calls) or \
                any(callee_is(t, r"Future::poll$") and "CatchUnwind" in (op_fn(t["func"]) or {}).get("full", "") for _, t in ds.calls)
            from_fmt = from_fmt or (ds.has_call(r"fmt::format$", r"format$", r"coerce_into_info$") and any(A.const_str(c) is None for c in ds.consts))
            # the payload arrives as the result of an awaited crate-local future that itself contains the catch_unwind
            for _, rv in ds.aggs:
                if rv.get("agg") in ("coroutine", "closure", "coroutine_closure") and contains_catch(F.body(rv["def"])):
                    from_catch = True
            # ... or of an awaited crate-local `async fn` helper (`Self::init_step_world().await`, `catch_panic(fut).await`) that contains it
            for cs, ct in ds.calls:
                if contains_catch(F.callee_body(ct, sb.crate)):
                    from_catch = True
        inst = f"payload/{name}@{F.root_fn(b).short.rsplit('::', 1)[-1]}/{s.loc.rsplit(':', 1)[-1] if False else ''}"
        # the caught `Box<dyn Any + Send>` must be converted (Info::from / into), never wrapped as a value of its own
        ch = A.receiver_chain(b, op)
        rewrapped = False
        for cs, ct in ch[:1]:
            cb = F.callee_body(ct)
            f = op_fn(ct["func"])
            if cb is not None and f and any("dyn std::any::Any" in ta for ta in f.get("targs", [])) and any(callee_is(t2, r"Arc::<.*>::new$") for _, t2 in cb.calls()):
                rewrapped = True
        R.check(not rewrapped, f"payload-not-rewrapped/{name}@{F.root_fn(b).short.rsplit('::', 1)[-1]}", s, "Box<dyn Any> is converted with From/Into",
                f"{name}: the caught panic payload (Box<dyn Any + Send>) is wrapped as a value into a new Arc instead of being converted — downcasting it to String/&str/user types fails")
        R.check(from_catch or from_fmt, f"payload/{name}@{F.root_fn(b).short.rsplit('::', 1)[-1]}", s,
                "failure payload derives from the caught panic (or the World-init error text)",
                f"{name} is not built from the caught panic payload")
    # ... wherever it happens in the attempt routine: no instantiation of a crate-local generic wrapper that puts its argument into a
    # new `Arc` (coerce_into_info) with the caught payload's type `Box<dyn Any + Send>` — called directly or handed to a combinator
    # (`.map_err(coerce_into_info)`) — the payload has to be converted (`Info::from`, `.into()`), which keeps the inner value
    keys = {b.key for b in bodies}
    wrappers = {}
    for site, how, f in F.fn_refs(r"."):
        if site.body.key not in keys or not f.get("local"):
            continue
        if not any("dyn std::any::Any" in ta and ta.startswith("std::boxed::Box<") for ta in f.get("targs", [])):
            continue
        cb = F.body(f.get("res") or f["path"], site.body.crate) or F.body(f["path"], site.body.crate)
        if cb is None:
            continue
        if cb.key not in wrappers:
            wrappers[cb.key] = any(callee_is(t2, r"Arc::<.*>::new$") for nb in F.nested(cb) for _, t2 in nb.calls())
        if wrappers[cb.key]:
            R.violation(f"payload-not-rewrapped/any-site@{F.root_fn(site.body).short.rsplit('::', 1)[-1]}", site,
                        f"`{cb.short}` is instantiated with the caught panic payload's type (Box<dyn Any + Send>) ({how}): the payload is wrapped as a value "
                        "into a new Arc instead of being converted — downcasting it to String / &str / user types fails")
    R.floor(4)


def r3(F, R):
    ex = roles.execute(F)
    takes = [(s, t) for s, t in ex.calls(lambda t: callee_is(t, r"panic::take_hook$"))]
    sets = [(s, t) for s, t in ex.calls(lambda t: callee_is(t, r"panic::set_hook$"))]
    R.check(len(takes) == 1 and len(sets) == 2, "hook-calls", ex, "one take_hook, two set_hook", f"take_hook x{len(takes)}, set_hook x{len(sets)}")
    if len(takes) != 1 or len(sets) != 2:
        return
    s_t, t_t = takes[0]
    h = t_t["dest"]["l"]
    restore = [(s, t) for s, t in sets if op_local(t["args"][0]) is not None and A.canon_place(ex, {"l": op_local(t["args"][0]), "p": []})["l"] == h]
    silence = [(s, t) for s, t in sets if (s, t) not in restore]
    R.check(len(restore) == 1, "restore-takes-saved-hook", ex, "set_hook(hook) with the hook taken at entry", "no set_hook call re-installs the hook taken at entry")
    if len(restore) == 1:
        s_r = restore[0][0]
        R.check(not ex.return_reachable_from(s_t, stop=[s_r]), "restore-on-every-exit", s_r, "every normal path to return restores the hook",
                "a normal path from take_hook to `return` skips the restoring set_hook (the process keeps the silent hook)")
        R.check(not ex.in_cycle(s_r), "restore-once", s_r, "", "the restoring set_hook is inside a loop")
        # it is the last effect: no emission after it
        sends_after = [s for s, t in ex.calls() if F.callee_body(t) is not None and any(True for _ in roles.sends(F, [F.callee_body(t)])) and ex.site_reaches(s_r, s)]
        R.check(not sends_after, "restore-after-last-emission", s_r, "", "events are emitted after the panic hook was restored")
    if len(silence) == 1:
        s_s = silence[0][0]
        firsts = [aw.poll_site for aw in A.awaits(ex)] + [s for s, t in ex.calls() if F.callee_body(t) is not None and any(True for _ in roles.sends(F, [F.callee_body(t)]))]
        R.check(ex.dominates(s_t, s_s) and all(ex.dominates(s_s, x) for x in firsts), "silence-before-anything-runs", s_s,
                "the silent hook is installed before the first suspension / emission", "user code can run (or events be emitted) before the silent panic hook is installed")
        kb = A.closure_of_operand(F, ex, silence[0][1]["args"][0])
        if kb is None:
            # Box::new(closure) -> unsize cast
            sl = A.slice_back(ex, [silence[0][1]["args"][0]])
            cl = [rv["def"] for _, rv in sl.aggs if rv.get("agg") == "closure"]
            kb = F.body(cl[0]) if len(cl) == 1 else None
        R.check(kb is not None and not list(kb.calls()), "silent-hook-is-noop", kb or s_s, "silent hook does nothing", "the hook installed during the run is not a no-op")
    R.floor(5)


def r4(F, R):
    """"... it becomes the *corresponding* Failed event": the deferred failure event is the failed event of the kind of step / hook
    that failed (C02.R3's rule on emit_failed_events and the event constructors it uses)."""
    from . import c02
    c02.r3(F, R)


RULES = [("R1", r1, None), ("R2", r2, None), ("R3", r3, None), ("R4", r4, None)]
