"""C16 — scenario outlines expand to one correctly substituted scenario per example row (clauses; DESIGN §4 C16)."""
import re

from . import analysis as A
from . import roles
from . import tags as T
from .mir import Site, Unverifiable, callee_is, callee_path, const_int, const_str, op_fn, op_local, op_place, place_fields, place_str

CFGS = {"quick": ["default", "all"], "thorough": ["default", "all", "nodefault"]}

EXPLANATION = """
Structural clauses of outline expansion: (R1) substitution sinks: in the per-row closure the scenario name and, for
every step, its text, its doc string and every cell of its table are each overwritten with the Ok result of the
substitution closure, whose Err propagates (`?`); (R2) literal replacer: Regex::replace_all is instantiated with a
closure replacer (values are inserted verbatim; a &str/String replacer would expand `$n`) and the template regex is
the constant `<([^>\\s]+)>`; (R3) unknown placeholder: the fallback of the column lookup builds ExpandExamplesError
whose `name` derives from the capture group, the substitution then returns Err, and the parser maps it to
parser::Error::ExampleExpansion; (R4) order and identity: tables, rows and scenarios pass only through
order-preserving adaptors, the table's tags are `extend`ed onto the clone's tags, position = table position with
line += row index + 2, a scenario without examples is returned as is, and expand_examples rebuilds both scenario
lists in place from their own taken value.
Not decided: results for particular characters/inputs, distinctness of positions as numbers.
Added after the second seeded round: (R4, extended) the un-expanded scenario is returned exactly when scenario.examples is empty (path table of expand_scenario).
"""
DECLINED = ["behaviour on particular strings (unicode, `$`, regex metacharacters) beyond the replacer kind", "numeric distinctness of positions"]
ASSUMPTIONS = ["regex::Regex::replace_all with a closure replacer inserts the returned text verbatim"]

LOSSY = {"skip", "take", "step_by", "rev", "skip_while", "take_while", "dedup", "nth", "last", "sorted", "sorted_by", "unique", "cycle", "peekable", "scan", "filter"}


def expand_fn(F):
    bs = [b for b in F.crate_bodies() if b.kind == "Fn" and b.name.startswith("feature::") and b.arg_count == 2 and b.locals[1] == "gherkin::Scenario"
          and "ExpandExamplesError" in b.locals[0]]
    if len(bs) != 1:
        raise Unverifiable(f"expand_scenario role: {len(bs)}")
    return bs[0]


def row_closure(F, ex):
    """The per-row routine: the closure — or private helper fn — of the expansion that clones the scenario and returns
    Result<Scenario, ExpandExamplesError>."""
    ks = [nb for nb in roles.family(F, ex) if nb.kind in ("Closure", "Fn", "AssocFn") and nb is not ex and
          nb.locals[0] == "std::result::Result<gherkin::Scenario, feature::ExpandExamplesError>"]
    if len(ks) != 1:
        raise Unverifiable(f"per-row routine: {len(ks)}")
    return ks[0]


def subst_closure(F, rk):
    """The substitution routine: closure or private helper fn returning Result<String, ExpandExamplesError>."""
    ex = expand_fn(F)
    ks = [nb for nb in roles.family(F, ex) if nb.kind in ("Closure", "Fn", "AssocFn") and
          nb.locals[0] == "std::result::Result<std::string::String, feature::ExpandExamplesError>" and
          any(True for _ in nb.calls(lambda t: callee_is(t, r"Regex::replace_all$")))]
    if len(ks) != 1:
        raise Unverifiable(f"substitution routine: {len(ks)}")
    return ks[0]


def subst_calls(F, rk, sk):
    """Call sites of the substitution routine in the per-row routine (closure call or direct call)."""
    out = []
    for s, t in rk.calls():
        if callee_is(t, r"ops::Fn(Mut)?::call(_mut)?$") and A.closure_of_operand(F, rk, t["args"][0]) is sk:
            out.append((s, t))
        elif F.callee_body(t, rk.crate) is sk:
            out.append((s, t))
    return out


def subst_stop(sk):
    return [r"ops::Fn(Mut)?::call(_mut)?$", "^" + re.escape(sk.name) + "$"]


def r1(F, R):
    ex = expand_fn(F)
    rk = row_closure(F, ex)
    sk = subst_closure(F, rk)
    calls = subst_calls(F, rk, sk)
    STOP = subst_stop(sk)
    R.check(len(calls) >= 2, "substitution-call-sites", rk, "name + step values", f"{len(calls)} calls of the substitution routine")
    # name sink
    name_w = [(s, st) for s, st in rk.assigns(lambda st: st["pl"]["p"] and place_fields(st["pl"])[-1:] == [("gherkin::Scenario", "name")])]
    ok_name = False
    for s, st in name_w:
        sl = A.slice_back(rk, A.rvalue_operands(st["rv"]), stop_calls=STOP)
        if any(cs in [c[0] for c in calls] for cs, _ in sl.calls) and sl.has_call(r"Try::branch$"):
            ok_name = True
    R.check(ok_name, "sink/scenario-name", name_w[0][0] if name_w else rk, "expanded.name = replace_templates(name)?", "the scenario name is not substituted")
    # what is substituted and written back: per call site of the substitution routine, the gherkin field its input is read from —
    # through the one chained loop (`value`, `docstring`, table cells chained into one iterator of `&mut String`) or call by call
    # (`s.value = subst(&s.value)?; if let Some(d) = &mut s.docstring { *d = subst(d)? } ...`) — and that its `?`-checked result is
    # stored (a deref write through the `&mut String`, or an assignment to the field)
    SINKS = {("gherkin::Step", "value"), ("gherkin::Step", "docstring"), ("gherkin::Table", "rows"), ("gherkin::Scenario", "name")}
    cover = set()
    stored = 0
    call_sites = [c[0] for c in calls]
    writes = [(s, st) for s, st in rk.assigns(lambda st: (st["pl"]["p"] == ["*"] and rk.locals[st["pl"]["l"]] == "&mut std::string::String") or
                                              (st["pl"]["p"] and place_fields(st["pl"])[-1:] and place_fields(st["pl"])[-1] in SINKS))]
    for s, st in writes:
        sl = A.slice_back(rk, A.rvalue_operands(st["rv"]), stop_calls=STOP)
        if not (any(cs in call_sites for cs, _ in sl.calls) and sl.has_call(r"Try::branch$")):
            continue
        stored += 1
        if st["pl"]["p"] != ["*"]:
            cover.add(place_fields(st["pl"])[-1])
            continue
        # where does the &mut String come from: a field directly, or next() of an iterator chain over fields
        src = A.slice_back(rk, start_locals=[st["pl"]["l"]], stop_calls=[r"Iterator::next$"])
        cover |= {(o, n) for o, n in src.fields if (o, n) in SINKS}
        nexts = src.calls_matching(r"Iterator::next$")
        if nexts:
            direct = A.slice_back(rk, [nexts[0][1]["args"][0]], stop_calls=STOP)
            cover |= {(o, n) for o, n in direct.fields if (o, n) in SINKS}
            leaves = T.chain_leaves(F, rk, _into_iter_src(rk, nexts[0][1]["args"][0]))
            for b2, lo in leaves:
                lsl = A.slice_back(b2, [lo], stop_calls=[r"Iterator::chain$", r"Iterator::next$"] + STOP)
                fs = {(o, n) for o, n in lsl.fields if o in ("gherkin::Step", "gherkin::Table")}
                for _, rv in lsl.aggs:
                    if rv.get("agg") == "closure":
                        kb = F.body(rv["def"])
                        for nb in F.nested(kb) if kb else []:
                            for _, st2 in nb.assigns():
                                for pl in A.rvalue_places(st2["rv"]):
                                    fs |= {(o, n) for o, n in place_fields(pl) if o in ("gherkin::Step", "gherkin::Table")}
                cover |= fs
    anchor = writes[0][0] if writes else rk
    for fld, inst in ((("gherkin::Step", "value"), "step-text"), (("gherkin::Step", "docstring"), "doc-string"), (("gherkin::Table", "rows"), "table-cells")):
        R.check(fld in cover, f"sink/{inst}", anchor, f"{fld[1]} is substituted", f"placeholders in a step's {inst.replace('-', ' ')} are not substituted ({fld[0]}.{fld[1]} is not part of the substituted values)")
    R.check(stored >= 2, "sink/value-loop", anchor, "*value = replace_templates(value)?", "step values are not overwritten with the substitution result")
    # every step and every value is substituted: inside the loops the substitution is conditioned on nothing but the
    # iterators producing another element (and the `?` of an earlier substitution)
    for cs, ct in calls:
        extra = []
        for g in A.guards_of(rk, cs):
            d = g.cond_def()
            src = None
            if d and d[0] == "discr":
                l = d[1]["l"]
                for _ in range(6):
                    dd = A.local_def_desc(rk, l)
                    if dd[0] == "call":
                        src = dd[2]
                        break
                    if dd[0] == "place":
                        l = dd[1]["l"]
                        continue
                    break
                if src is not None and callee_is(src, r"Iterator::next$", r"Try::branch$"):
                    continue
            if d and d[0] == "discr" and src is None and getattr(g, "derived", False):
                continue
            if d and d[0] == "discr" and g.variants() == {"Some"}:
                # `if let Some(docstring) = &mut s.docstring`: the sink itself is optional — nothing to substitute when it is absent
                fl = [e for e in A.canon_place(rk, d[1])["p"] if isinstance(e, dict) and "f" in e]
                if fl and (fl[-1].get("o"), fl[-1].get("n")) in (("gherkin::Step", "docstring"), ("gherkin::Step", "table")):
                    continue
                dd = A.local_def_desc(rk, d[1]["l"]) if not fl else None
                if dd and dd[0] == "place":
                    fl2 = [e for e in A.canon_place(rk, dd[1])["p"] if isinstance(e, dict) and "f" in e]
                    if fl2 and (fl2[-1].get("o"), fl2[-1].get("n")) in (("gherkin::Step", "docstring"), ("gherkin::Step", "table")):
                        continue
            extra.append(A.describe_operand(rk, g.term["discr"]))
        R.check(not extra, "sink/unconditional", cs, "substitution applied to every step / value", f"a substitution is skipped under a condition ({extra}): placeholders of such steps stay unsubstituted")
    # the steps loop covers every step: iter_mut over Scenario.steps without lossy adaptors
    R.floor(8)


def _into_iter_src(body, op):
    """`for x in EXPR` lowers to next(&mut into_iter(EXPR)): return EXPR's operand."""
    ch = A.receiver_chain(body, op)
    for s, t in ch:
        if callee_is(t, r"IntoIterator::into_iter$"):
            return t["args"][0]
    return op


def r2(F, R):
    ex = expand_fn(F)
    rk = row_closure(F, ex)
    sk = subst_closure(F, rk)
    ra = [(s, t) for s, t in sk.calls(lambda t: callee_is(t, r"Regex::replace_all$"))]
    R.check(len(ra) == 1, "replace-all-site", sk, "", f"{len(ra)} replace_all calls")
    if len(ra) == 1:
        f = op_fn(ra[0][1]["func"])
        targs = f.get("targs", [])
        R.check(any(t.startswith("{closure@") for t in targs), "closure-replacer", ra[0][0], "replace_all(text, |caps| ..)",
                f"Regex::replace_all is instantiated with replacer type {targs}: `$` in example values would be expanded as capture references")
        sl = A.slice_back(sk, [ra[0][1]["args"][1]])
        R.check(bool(sl.params), "replaces-in-given-text", ra[0][0], "", "replace_all is not applied to the given text")
    # template regex constant
    regs = [b for b in F.crate_bodies() if b.name.startswith("feature::") and any(callee_is(t, r"Regex::new$") for nb in F.nested(b) for _, t in nb.calls()) and
            (b.kind not in ("Fn", "AssocFn"))]
    regs = regs + [nb for b in regs for nb in F.nested(b) if nb is not b]
    pats = [const_str(op) for b in regs for _, st in b.assigns() for op in A.rvalue_operands(st["rv"]) if const_str(op) is not None]
    pats += [const_str(a) for b in regs for _, t in b.calls(lambda t: callee_is(t, r"Regex::new$")) for a in t["args"] if const_str(a) is not None]
    pats = sorted(set(pats))
    R.check(len(pats) == 1 and re.fullmatch(r"<\(\[\^>\\+s\]\+\)>", pats[0]) is not None, "template-pattern", regs[0] if regs else None, "`<([^>\\s]+)>`", f"template regex is {pats}")
    R.floor(3)


def r3(F, R):
    ex = expand_fn(F)
    rk = row_closure(F, ex)
    sk = subst_closure(F, rk)
    errs = [(nb, s, st) for nb in F.nested(sk) for s, st in nb.assigns(lambda st: st["rv"]["k"] == "agg" and st["rv"].get("adt") == "feature::ExpandExamplesError")]
    R.check(len(errs) == 1, "error-site", sk, "", f"{len(errs)} ExpandExamplesError aggregates")
    if len(errs) != 1:
        return
    nb, s, st = errs[0]
    f = dict(zip(st["rv"]["fields"], st["rv"]["ops"]))
    ds = A.deep_slice(F, nb, [f["name"]])
    R.check(ds.has_call(r"Captures::<.*>::get$", r"Captures.*::get$") and ds.has_call(r"Match::<.*>::as_str$", r"Match.*::as_str$"), "error-names-placeholder", s,
            "name = the captured placeholder", "the error does not name the unresolved placeholder")
    # the error is recorded exactly when the column lookup finds nothing — on the replacer closure's path table
    from . import deep as D
    ra = [(s2, t2) for s2, t2 in sk.calls(lambda t2: callee_is(t2, r"Regex::replace_all$"))]
    rp = A.closure_of_operand(F, sk, ra[0][1]["args"][2]) if len(ra) == 1 and len(ra[0][1]["args"]) > 2 else None
    ok_fb = False
    if rp is not None:
        # (the column look-up may live in a private helper returning an Option — `self.value_of(name)` — which stays one opaque call)
        helpers = [hb for hb in roles.family(F, ex) if hb.kind in ("Fn", "AssocFn") and hb is not sk and hb is not rk and hb is not ex and
                   hb.locals[0].startswith("std::option::Option<&") and any(F.callee_body(t9, nb9.crate) is hb for nb9 in F.nested(rp) for _, t9 in nb9.calls())]
        opq = "^(" + "|".join(re.escape(hb.name) for hb in helpers) + ")$" if helpers else None
        LOOK = r"Iterator::(find_map|find|position)$" + ("|" + opq if opq else "")
        rows = D.Deep(F, rp, max_paths=400, opaque=opq).run()
        ok_fb = bool(rows)
        seen_err = 0
        for p in rows:
            if p.cut:
                continue
            look = [o for a, o in p.conds if a[0] == "discr" and a[1][0] == "call" and re.search(LOOK, a[1][1])]
            errw = [e for e in p.effects if e[0] == "write" and D.mentions(e[2], lambda x: D.is_variant(x, "feature::ExpandExamplesError"))]
            if len(look) != 1:
                ok_fb = False
                continue
            if errw:
                seen_err += 1
            ok_fb = ok_fb and (bool(errw) == (look[0] == "None"))
        ok_fb = ok_fb and seen_err >= 1
        # ... and once recorded it stays: the cell the error is written to (shared by all placeholders of one string) is written nowhere else —
        # a later placeholder that resolves must not reset it
        cells = {e[1] for p in rows for e in p.effects if e[0] == "write" and D.mentions(e[2], lambda x: D.is_variant(x, "feature::ExpandExamplesError"))}
        cleared = [p for p in rows for e in p.effects if e[0] == "write" and e[1] in cells and not D.mentions(e[2], lambda x: D.is_variant(x, "feature::ExpandExamplesError"))]
        R.check(not cleared, "recorded-error-is-kept", s, "the error cell is only ever set",
                "the cell an unknown placeholder is recorded in is overwritten (with `None`) when a later placeholder of the same string resolves: `<typo> of <total>` is "
                "accepted with the unknown placeholder replaced by nothing")
    R.check(ok_fb, "error-only-if-column-missing", s, "lookup.unwrap_or_else(|| { err = Some(..); \"\" })", "the error is not raised exactly when the column lookup fails")
    # the substitution returns Err exactly when an error was recorded — on the substitution routine's path table
    rows = D.Deep(F, sk, inline=False, max_paths=400).run()
    ok_ret = bool(rows)
    n_err = 0
    for p in rows:
        rec = [o for a, o in p.conds if a[0] == "discr" and a[1][0] == "havoc"]
        is_err = D.is_variant(p.ret, "std::result::Result", "Err")
        is_ok = D.is_variant(p.ret, "std::result::Result", "Ok")
        if len(rec) != 1 or not (is_err or is_ok):
            ok_ret = False
            continue
        if is_err:
            n_err += 1
            ok_ret = ok_ret and rec[0] == "Some" and D.mentions(p.ret, lambda x: x[0] == "havoc")
        else:
            ok_ret = ok_ret and rec[0] == "None" and D.mentions(p.ret, lambda x: x[0] == "call" and re.search(r"Regex::replace_all$", x[1]))
    ok_ret = ok_ret and n_err >= 1
    R.check(ok_ret, "error-propagates", sk, "err.map_or_else(|| Ok(replaced), Err)", "a recorded error does not turn the substitution into Err (or the replaced text is not what is returned)")
    # parser maps it
    conv = [b for b in F.crate_bodies() if (b.impl or {}).get("self_adt") == "parser::Error" and (b.impl or {}).get("trait") == "std::convert::From"
            and any("ExpandExamplesError" in ty for ty in b.locals[1:2])]
    okc = len(conv) == 1 and any(st2["rv"].get("variant") == "ExampleExpansion" for _, st2 in conv[0].assigns(lambda st2: st2["rv"]["k"] == "agg" and st2["rv"].get("adt") == "parser::Error"))
    R.check(okc, "parser-error-variant", conv[0] if conv else None, "From<ExpandExamplesError> -> Error::ExampleExpansion", "ExpandExamplesError is not mapped to parser::Error::ExampleExpansion")
    pb = [b for b in F.crate_bodies() if b.name.startswith("<parser::basic::Basic") or b.name.startswith("parser::basic::")]
    uses = [(b, s2) for b in pb for s2, t2 in b.calls(lambda t2: callee_is(t2, r"feature::Ext::expand_examples$"))]
    R.check(len(uses) >= 1, "parser-expands", uses[0][1] if uses else None, "parser::Basic calls expand_examples", "parser::Basic no longer expands outlines")
    # ... and every value the file-reading closure returns that was read from a file went through the expanding map
    PARSE = r"gherkin::Feature::parse_path$|gherkin::Feature::parse$|Feature::parse_path$"

    def reads_files(b2, t2, depth=0):
        if callee_is(t2, PARSE):
            return True
        kb = None
        if callee_is(t2, r"ops::Fn(Once|Mut)?::call(_once|_mut)?$"):
            kb = A.closure_of_operand(F, b2, t2["args"][0])
        elif F.callee_body(t2, b2.crate) is not None:
            kb = F.callee_body(t2, b2.crate)
        if kb is not None and depth < 3:
            return any(reads_files(nb, t3, depth + 1) for nb in F.nested(kb) for _, t3 in nb.calls())
        return False
    n_ret, bad = 0, None
    def is_expander(fc, op, mk):
        """operand `op` (of a map-like adaptor in fc) is the expanding closure mk, or the fn item mk (`.map(Self::expand)`)"""
        if A.closure_of_operand(F, fc, op) is mk:
            return True
        fi = op_fn(op)
        if fi is None:
            l = op_local(op)
            sd = fc.single_def(A.canon_place(fc, {"l": l, "p": []})["l"]) if l is not None else None
            if sd and sd[1] == "assign" and sd[2]["rv"]["k"] in ("use", "cast"):
                fi = op_fn(sd[2]["rv"]["op"])
        return fi is not None and (F.body(fi.get("res") or fi["path"], fc.crate) is mk or F.body(fi["path"], fc.crate) is mk)
    holders = []
    for mk, s_use in uses:
        if mk.kind == "Closure":
            if F.parent_body(mk) is not None:
                holders.append((mk, F.parent_body(mk)))
        else:
            # a private fn item: the bodies that hand it to an adaptor (or call it per element)
            for site, how, f in F.fn_refs("^" + re.escape(mk.name) + "$"):
                if site.body is not mk and (mk, site.body) not in holders:
                    holders.append((mk, site.body))
    # the expansion written as an explicit loop in a routine of its own (`for res in parsed { out.push(match res { Ok(f) => f.expand_examples().., .. }) }`):
    # on the routine's table every `Ok(..)` pushed into the output derives from the result of expand_examples, and what it loops over was read from files
    for mk, s_use in uses:
        if mk.kind == "Closure" or any(h[0] is mk for h in holders):
            continue
        from . import deep as D
        rows = D.Deep(F, mk, inline=False, max_paths=500).run()
        oks = raw = 0
        for p in rows:
            for e in p.effects:
                if e[0] == "call" and re.search(r"Vec::<.*>::push$", e[1]) and len(e[2]) == 2 and D.is_variant(e[2][1], "std::result::Result", "Ok"):
                    if D.mentions(e[2][1], lambda x: x[0] == "call" and re.search(r"feature::Ext>?::expand_examples$|::expand_examples$", x[1])):
                        oks += 1
                    else:
                        raw += 1
        if any(reads_files(mk, t2) for _, t2 in mk.calls()) and (oks or raw):
            n_ret += 1
            if raw or not oks:
                bad = "a feature read from files is put into the parser's output without having passed through expand_examples"
    for mk, fc in holders:
        emaps = [s2 for s2, t2 in fc.calls(lambda t2: callee_is(t2, r"Iterator::(map|flat_map|filter_map)$") and len(t2["args"]) > 1 and is_expander(fc, t2["args"][1], mk))]
        emaps += [s2 for s2, t2 in fc.calls(lambda t2: F.callee_body(t2, fc.crate) is mk)]     # explicit loop: `out.push(Self::expand(f))`
        for site, kind, payload in fc.defs.get(0, []):
            ops = A.rvalue_operands(payload["rv"]) if kind == "assign" else payload["args"]
            sl = A.slice_back(fc, ops)
            calls = list(sl.calls) + ([(site, payload)] if kind == "call" else [])
            src = any(reads_files(fc, t2) for _, t2 in calls)
            if not src:
                continue
            n_ret += 1
            if not any(cs in emaps for cs, _ in calls):
                bad = "a value returned by the file-reading closure was read from files but did not pass through the expand_examples map (one way of locating the files skips the expansion)"
    R.check(bad is None and n_ret >= 1, "parser-expands-on-every-path", uses[0][1] if uses else None, "every returned parsed feature went through the expanding map",
            bad or "no returned value of the parser derives from parsed files")
    R.floor(6)


def r4(F, R):
    ex = expand_fn(F)
    rk = row_closure(F, ex)
    # adaptors in expand_scenario and its closures
    bad = []
    n = 0
    for nb in roles.family(F, ex):
        for s, t in nb.calls():
            f = op_fn(t["func"])
            if f and f.get("trait", "").endswith(("Iterator", "Itertools", "DoubleEndedIterator")):
                nm = f["path"].rsplit("::", 1)[-1]
                n += 1
                if nm in LOSSY and not (nm == "filter" and False):
                    bad.append((nm, s.loc))
    R.check(not bad and n >= 4, "order-preserving-adaptors", ex, f"{n} iterator adaptors, none reordering or truncating", f"outline expansion iterates through {bad}")
    # tags appended after the outline's tags
    exts = [(s, t) for s, t in rk.calls(lambda t: callee_is(t, r"Extend.*::extend$", r"Vec::<.*>::extend$"))]
    ok_t = False
    for s, t in exts:
        sl = A.slice_back(rk, [t["args"][0]], stop_calls=[r"Clone::clone$"])
        if ("gherkin::Scenario", "tags") in sl.fields:
            src = A.slice_back(rk, [t["args"][1]])
            ok_t = bool(src.params or src.upvars) and not src.has_call(r"Iterator::rev$")
    R.check(ok_t, "table-tags-appended", exts[0][0] if exts else rk, "expanded.tags.extend(table tags)", "the Examples table's tags are not appended to the clone's tags")
    # position = table position, line += row index + 2
    pw = [(s, st) for s, st in rk.assigns(lambda st: st["pl"]["p"] and place_fields(st["pl"]) and place_fields(st["pl"])[0] == ("gherkin::Scenario", "position"))]
    whole = [x for x in pw if len(place_fields(x[1]["pl"])) == 1]
    line = [x for x in pw if place_fields(x[1]["pl"])[-1][1] == "line"]
    ok_p = len(whole) == 1 and len(line) == 1 and rk.dominates(whole[0][0], line[0][0])
    if ok_p:
        sl = A.slice_back(rk, A.rvalue_operands(line[0][1]["rv"]))
        adds = [rv for _, rv in sl.bins if rv["op"] in ("Add", "AddWithOverflow")]
        ok_p = any(const_int(rv["b"]) == 2 or const_int(rv["a"]) == 2 for rv in adds) and len(adds) == 2
    R.check(ok_p, "position-from-table-and-row", line[0][0] if line else rk, "position = table position; line += row index + 2", "expanded scenarios do not get position (table position, line + row index + 2)")
    # no examples -> unchanged
    emp = [(s, t) for s, t in ex.calls(lambda t: callee_is(t, r"Vec::<.*>::is_empty$"))]
    ok_e = False
    for s, t in emp:
        rsl = A.slice_back(ex, [t["args"][0]])
        if ("gherkin::Scenario", "examples") in rsl.fields:
            sw = ex.blocks[t["t"]]["term"]
            if sw["k"] == "switch":
                reach = ex.reachable_blocks(sw["otherwise"], cut_blocks=frozenset(tg for v, tg in sw["targets"]))
                rets = [x for x in reach if ex.blocks[x]["term"]["k"] == "return"]
                clones = [c for x in reach for c in [ex.blocks[x]["term"]] if c["k"] == "call" and callee_is(c, r"Iterator::|Clone::clone$")]
                ok_e = bool(rets) and not clones
    R.check(ok_e, "no-examples-unchanged", emp[0][0] if emp else ex, "examples.is_empty() => vec![Ok(scenario)]", "a scenario without Examples is not returned unchanged")
    # ... and ONLY then: the raw scenario (unsubstituted placeholders) is handed back exactly when `scenario.examples` itself is empty,
    # not when the expansion happens to be empty (an outline whose tables have no data rows expands to nothing) — on the path table
    from . import deep as D
    from .c03 import field_index
    i_ex = field_index(F, "gherkin::Scenario", "examples")
    def strip(t):
        if isinstance(t, tuple) and t:
            if t[0] in ("ref", "deref", "refto", "conv") and len(t) == 2:
                return strip(t[1])
            if t[0] == "L" and len(t) == 3 and t[1] == 0:
                return ("arg", t[2])
            return tuple(strip(x) for x in t)
        return t
    raw = lambda x: D.is_variant(x, "std::result::Result", "Ok") and strip(x[3][0]) == ("arg", 1)
    rows = D.Deep(F, ex, inline=False, max_paths=200).run()
    okr, n_raw = i_ex is not None and bool(rows), 0
    for p in rows:
        gives_raw = D.mentions(p.ret, raw) or any(e[0] == "write" and D.mentions(e[2], raw) for e in p.effects)
        emptiness = [o for a, o in p.conds if a[0] == "call" and re.search(r"Vec(::<.*>)?::is_empty$", a[1]) and strip(a[2][0]) == ("field", ("arg", 1), i_ex) and isinstance(o, bool)]
        if gives_raw:
            n_raw += 1
            okr = okr and emptiness == [True]
        elif emptiness == [True]:
            okr = False
    R.check(okr and n_raw >= 1, "raw-scenario-only-without-examples", ex, "Ok(scenario) is returned iff scenario.examples.is_empty()",
            "the un-expanded scenario can be returned although it has Examples (e.g. when its tables have no data rows): raw `<placeholders>` reach the runner")
    # expand_examples rebuilds both lists from their own taken value, in order
    ee = [b for b in F.crate_bodies() if (b.impl or {}).get("trait") == "feature::Ext" and (b.impl or {}).get("self_adt") == "gherkin::Feature" and b.name.endswith("::expand_examples")]
    if len(ee) != 1:
        raise Unverifiable("Feature::expand_examples")
    b = ee[0]
    for owner in ("gherkin::Feature", "gherkin::Rule"):
        ws = [(s, st) for s, st in b.assigns(lambda st: st["pl"]["p"] and place_fields(A.canon_place(b, st["pl"]))[-1:] == [(owner, "scenarios")])]
        ok = False
        for s, st in ws:
            sl = A.slice_back(b, A.rvalue_operands(st["rv"]), stop_calls=[r"mem::take$"])
            tk = [t for _, t in sl.calls if callee_is(t, r"mem::take$")]
            own = any((owner, "scenarios") in A.slice_back(b, [t["args"][0]]).fields for t in tk)
            ok = own and sl.has_call(r"Try::branch$")
        R.check(ok, f"expand-in-place/{owner.split('::')[1]}", ws[0][0] if ws else b, f"{owner}.scenarios = expand(take(..))?", f"{owner}.scenarios is not rebuilt from its own expanded value (with error propagation)")
    ek = [nb for nb in F.nested(b) if nb is not b and any(callee_is(t, r"Iterator::flat_map$") for _, t in nb.calls())]
    okf = False
    for nb in ek:
        names = [callee_path(t).rsplit("::", 1)[-1] for _, t in nb.calls() if (op_fn(t["func"]) or {}).get("trait", "").endswith(("Iterator", "IntoIterator"))]
        okf = sorted(names) == ["collect", "flat_map", "into_iter"]
    if not okf:
        # explicit-loop spelling (closure or private helper): `for sc in scenarios { for r in expand_scenario(sc, ..) { out.push(r?) } }` — both
        # loops are left only at their iterator's end (or through the `?` of a failed expansion) and every way round passes the push / the inner loop
        cands = list(F.nested(b))
        for nb0 in list(cands):
            for _, t0 in nb0.calls():
                cb0 = F.callee_body(t0, nb0.crate)
                if cb0 is not None and cb0.name.startswith("feature::") and cb0 is not ex and cb0 not in cands:
                    cands += F.nested(cb0)
        for nb in cands:
            if nb is b and not any(callee_is(t, r"Vec::<.*>::push$") for _, t in nb.calls()):
                continue
            pushes = [s_ for s_, t in nb.calls(lambda t: callee_is(t, r"Vec::<.*>::push$"))]
            nexts = [(s_, t) for s_, t in nb.calls(lambda t: callee_is(t, r"Iterator::next$")) if nb.in_cycle(s_)]
            calls_ex = [s_ for s_, t in nb.calls() if F.callee_body(t, nb.crate) is ex]
            if len(pushes) != 1 or len(nexts) != 2 or len(calls_ex) != 1:
                continue
            lossy = [callee_path(t).rsplit("::", 1)[-1] for _, t in nb.calls() if (op_fn(t["func"]) or {}).get("trait", "").endswith(("Iterator", "Itertools", "DoubleEndedIterator"))
                     and callee_path(t).rsplit("::", 1)[-1] in LOSSY]
            is_ret = lambda y, nb=nb: nb.blocks[y]["term"]["k"] in ("return", "goto") and 0 in {st_["pl"]["l"] for st_ in nb.blocks[y]["stmts"]} or \
                any(callee_is(nb.blocks[z]["term"], r"FromResidual.*::from_residual$") for z in nb.reachable_blocks(y) if nb.blocks[z]["term"]["k"] == "call")
            loops = [A.natural_loop(nb, s_.bb) for s_, _ in nexts]
            inner = min(range(2), key=lambda i: len(loops[i]))
            outer = 1 - inner
            ok_in = A.for_loop_handles_every_element(nb, nexts[inner][0], nexts[inner][1], {pushes[0].bb}, exit_ok=is_ret)
            ok_out = A.for_loop_handles_every_element(nb, nexts[outer][0], nexts[outer][1], set(loops[inner]), exit_ok=is_ret)
            okf = ok_in and ok_out and not lossy
    R.check(okf, "expand-keeps-order", b, "scenarios.into_iter().flat_map(expand_scenario).collect()", "scenarios are not expanded in place and in order")
    # ... of EVERY scenario: the element closure of the flat_map hands each element to the expander on every path (no "nothing to expand"
    # shortcut of its own: when a scenario is passed through unexpanded is the expander's decision, R4 `raw-scenario-only-without-examples`)
    for nb in ek:
        for s_f, t_f in nb.calls(lambda t: callee_is(t, r"Iterator::flat_map$")):
            kb = A.closure_of_operand(F, nb, t_f["args"][1])
            if kb is None:
                fi = op_fn(t_f["args"][1])
                okk = fi is not None and (F.body(fi.get("res") or fi["path"], nb.crate) is ex or F.body(fi["path"], nb.crate) is ex)
            else:
                sites = [s_ for s_, t in kb.calls() if F.callee_body(t, kb.crate) is ex]
                okk = bool(sites) and not kb.entry_reaches_return(stop=sites)
            R.check(okk, "expand-every-scenario", kb or nb, "each element goes through expand_scenario",
                    "a scenario can bypass expand_scenario (a shortcut in the per-scenario closure): an outline the shortcut takes for `nothing to expand` reaches the runner with raw <placeholders>")
    # ... of every feature: no return of expand_examples before both lists were rebuilt (a `feature has no outlines` fast path must agree
    # with the rebuild on what an outline is — and on `all` rules, not `any`)
    resid = [s_ for s_, t in b.calls(lambda t: callee_is(t, r"FromResidual.*::from_residual$"))]
    for owner in ("gherkin::Feature", "gherkin::Rule"):
        takes = [s_ for s_, t in b.calls(lambda t: callee_is(t, r"mem::take$")) if (owner, "scenarios") in A.slice_back(b, [t["args"][0]]).fields]
        if owner == "gherkin::Rule":
            # the loop over the rules may run zero times: what every return must pass is the creation of its iterator
            takes = [s_ for s_, t in b.calls(lambda t: callee_is(t, r"IntoIterator::into_iter$|slice::.*::iter_mut$|Vec::<.*>::iter_mut$|Iterator::try_for_each$|Iterator::for_each$"))
                     if ("gherkin::Feature", "rules") in A.slice_back(b, [t["args"][0]]).fields]
        okp = bool(takes) and not b.entry_reaches_return(stop=takes + resid)
        if not okp and takes and _fast_path_is_exact(F, b, takes + resid):
            okp = True   # a fast path taken exactly when NO scenario of the feature and of ALL its rules has Examples: nothing to expand
        R.check(okp, f"expand-on-every-path/{owner.split('::')[1]}", takes[0] if takes else b, f"no return before the {owner.split('::')[1].lower()}'s scenarios were rebuilt",
                f"expand_examples can return before the {owner.split('::')[1].lower()}-level scenarios were expanded (an early-return fast path): outlines it misjudges stay unexpanded")
    R.floor(10)


def _plain_test(F, body, term, depth=0):
    """Is the call `term` (in `body`) a test "none of these scenarios has Examples": `iter.all(|s| s.examples.is_empty())`, such a test nested
    in an `all` over the rules, or a call of a local closure / private fn whose body returns such a test?  Returns the set of gherkin owners
    whose `scenarios` / `rules` the tested sequence derives from, or None."""
    if depth > 3:
        return None
    def returns_plain(kb):
        """closure / fn body whose every returned value is a plain-test (or `examples.is_empty()` itself)"""
        outs = set()
        sl = A.slice_back(kb, start_locals=[0])
        cs = [(s_, t) for s_, t in sl.calls if callee_is(t, r"Iterator::all$|::is_empty$|ops::Fn(Mut|Once)?::call(_mut|_once)?$") or F.callee_body(t, kb.crate) is not None]
        if not cs or any(callee_is(t, r"Iterator::any$") for _, t in sl.calls):
            return None
        for s_, t in cs:
            if callee_is(t, r"::is_empty$"):
                if ("gherkin::Scenario", "examples") not in A.slice_back(kb, [t["args"][0]]).fields:
                    return None
                outs.add("leaf")
            else:
                sub = _plain_test(F, kb, t, depth + 1)
                if sub is None:
                    return None
                outs |= sub
        return outs
    if callee_is(term, r"Iterator::all$"):
        kb = A.closure_of_operand(F, body, term["args"][1])
        if kb is None:
            return None
        inner = returns_plain(kb)
        if inner is None:
            return None
        recv = A.slice_back(body, [term["args"][0]]).fields
        return {o for o, n in recv if n in ("scenarios", "rules")} | (inner - {"leaf"})
    kb = None
    if callee_is(term, r"ops::Fn(Mut|Once)?::call(_mut|_once)?$"):
        kb = A.closure_of_operand(F, body, term["args"][0])
    elif F.callee_body(term, body.crate) is not None:
        kb = F.callee_body(term, body.crate)
    if kb is None:
        return None
    inner = returns_plain(kb)
    if inner is None:
        return None
    args = [a for a in term["args"]]
    recv = set()
    for a in args:
        recv |= {o for o, n in A.slice_back(body, [a]).fields if n in ("scenarios", "rules")}
    return recv | (inner - {"leaf"})


def _fast_path_is_exact(F, b, stops):
    """Every return of `b` that passes none of `stops` is guarded ONLY by positive plain-tests (see _plain_test), and together they cover the
    feature's own scenarios and (all of) its rules."""
    stop_bbs = {s_.bb for s_ in stops}
    free = b.reachable_blocks(0, cut_blocks=frozenset(stop_bbs))
    rets = [Site(b, x, "T") for x in free if b.blocks[x]["term"]["k"] == "return"]
    if not rets:
        return False
    # the value constructions that flow into those returns
    sites = [s_ for s_, st in b.assigns(lambda st: st["pl"]["l"] == 0 and not st["pl"]["p"]) if s_.bb in free]
    if not sites:
        return False
    for s_ in sites:
        covered = set()
        gs = A.guards_of(b, s_)
        if not gs:
            return False
        for g in gs:
            d = g.cond_def()
            if not d or d[0] != "call" or g.polarity() is not True:
                return False
            owners = _plain_test(F, b, d[2])
            if owners is None:
                return False
            covered |= owners
        if not {"gherkin::Feature", "gherkin::Rule"} <= covered:
            return False
    return True


def r5_clone(F, R):
    """Parser values and expansion errors are cloned when handed to the runner / writers: a clone keeps every field."""
    n = roles.check_clone_faithful_table(F, R, r"^feature::|^parser::", "clone-faithful")
    R.floor(3)


RULES = [("R1", r1, None), ("R2", r2, None), ("R3", r3, None), ("R4", r4, None), ("R5", r5_clone, None)]
