"""Rule framework: reporters, known findings, evidence files, the check driver."""
import importlib
import json
import os
import sys
import time
import traceback

from . import mir
from .mir import Unverifiable

VERIF = os.path.dirname(os.path.dirname(os.path.dirname(os.path.abspath(__file__))))


class Result:
    __slots__ = ("rule", "key", "status", "loc", "msg", "cfg", "path", "fn")

    def __init__(self, rule, key, status, loc, msg, cfg, path=None, fn=""):
        self.rule, self.key, self.status, self.loc, self.msg, self.cfg, self.path, self.fn = (
            rule, key, status, loc, msg, cfg, path, fn)

    def to_json(self):
        d = {"rule": self.rule, "key": self.key, "status": self.status, "where": self.loc, "fn": self.fn,
             "detail": self.msg, "cfg": self.cfg}
        if self.path:
            d["path"] = self.path
        return d


class Reporter:
    """Collects rule instances.  `key`s are line-free and stable: `<PID>/<rule>/<instance…>`."""

    def __init__(self, pid, cfg):
        self.pid = pid
        self.cfg = cfg
        self.results = []
        self.rule = None
        self._count = {}

    def set_rule(self, rule):
        self.rule = rule
        self._count.setdefault(rule, 0)

    def _loc(self, site):
        if site is None:
            return "", ""
        if isinstance(site, mir.Site):
            return site.loc, site.body.short
        if isinstance(site, mir.Body):
            return mir.fmt_span(site.span), site.short
        if isinstance(site, tuple):
            return site
        return str(site), ""

    def ok(self, inst, site=None, msg=""):
        loc, fn = self._loc(site)
        self._count[self.rule] += 1
        self.results.append(Result(self.rule, f"{self.pid}/{self.rule}/{inst}", "ok", loc, msg, self.cfg, fn=fn))

    def violation(self, inst, site=None, msg="", path=None):
        loc, fn = self._loc(site)
        self._count[self.rule] += 1
        self.results.append(Result(self.rule, f"{self.pid}/{self.rule}/{inst}", "violation", loc, msg, self.cfg, path, fn=fn))

    def check(self, cond, inst, site=None, ok_msg="", bad_msg="", path=None):
        if cond:
            self.ok(inst, site, ok_msg)
        else:
            self.violation(inst, site, bad_msg or ok_msg, path)
        return cond

    def unverifiable(self, inst, msg, site=None):
        loc, fn = self._loc(site)
        self.results.append(Result(self.rule, f"{self.pid}/{self.rule}/unverifiable/{inst}", "unverifiable", loc, msg,
                                   self.cfg, fn=fn))

    def floor(self, n, what=""):
        """Fail closed if the current rule matched fewer instances than counted by hand on the pinned tree."""
        c = self._count.get(self.rule, 0)
        if c < n:
            self.unverifiable("floor", f"rule matched {c} instance(s), floor is {n} {what}".strip())

    def count(self):
        return self._count.get(self.rule, 0)


def load_known():
    p = os.path.join(VERIF, "known_findings.json")
    if not os.path.exists(p):
        return []
    with open(p) as f:
        return json.load(f)["findings"]


def run_property(pid, tier="quick", cfgs=None, facts_for=None, out=sys.stdout, write_evidence=True,
                 evidence_dir=None):
    """Run all rules of property `pid`.  Returns exit code."""
    t0 = time.time()
    mod = importlib.import_module(f"rules.{pid.lower()}")
    evidence_dir = evidence_dir or os.path.join(VERIF, "evidence")
    seed = int(os.environ.get("VERIF_SEED", "0") or 0)
    cfg_list = cfgs or mod.CFGS.get(tier, mod.CFGS["quick"])
    all_results = []
    analysed = {}
    build_error = None
    for cfg in cfg_list:
        try:
            F = facts_for(cfg)
        except Exception as e:  # build failure
            build_error = f"{cfg}: {e}"
            break
        analysed[cfg] = {
            "facts_dir": os.path.basename(F.dir),
            "crates": {c: len(raw["bodies"]) for c, raw in F.crates.items()},
            "call_sites": sum(1 for b in F.bodies.values() for _ in b.calls()),
            "coroutines": sum(1 for b in F.bodies.values() if b.is_coroutine),
        }
        rep = Reporter(pid, cfg)
        for rule_id, fn, rule_cfgs in mod.RULES:
            if rule_cfgs and cfg not in rule_cfgs:
                continue
            rep.set_rule(rule_id)
            try:
                fn(F, rep)
            except Unverifiable as e:
                rep.unverifiable("anchor", str(e))
            except Exception as e:  # a crash of a rule is never a pass
                tb = traceback.format_exc().strip().splitlines()
                rep.unverifiable("crash", f"{type(e).__name__}: {e} | {tb[-3] if len(tb) > 2 else ''}")
        all_results.extend(rep.results)
    known = [k for k in load_known() if k.get("property") == pid]
    known_keys = {k["key"]: k for k in known if k.get("status") == "known"}
    # merge per key across cfgs: a key is a violation if it is one in any cfg
    by_key = {}
    for r in all_results:
        prev = by_key.get(r.key)
        if prev is None or (prev.status == "ok" and r.status != "ok"):
            by_key[r.key] = r
    violations = [r for r in by_key.values() if r.status in ("violation", "unverifiable")]
    reported, known_hit = [], []
    for r in violations:
        if r.status == "violation" and r.key in known_keys:
            known_hit.append(r)
        else:
            reported.append(r)
    rules_with_instances = sorted({r.rule for r in all_results if r.status in ("ok", "violation")})
    vdir = os.path.join(evidence_dir, f"{pid}.violations")
    if os.path.isdir(vdir):
        for f in os.listdir(vdir):
            os.remove(os.path.join(vdir, f))
    lines = []
    if build_error:
        os.makedirs(vdir, exist_ok=True)
        rp = os.path.join(vdir, "build.json")
        with open(rp, "w") as f:
            json.dump({"kind": "build-failed", "detail": build_error}, f, indent=1)
        lines.append(f"VIOLATION property={pid} replay={rp} kind=build-failed {build_error}")
    for r in known_hit:
        lines.append(f"KNOWN-FINDING: property={pid} {known_keys[r.key]['what']} [key={r.key} at {r.loc}]")
    for i, r in enumerate(sorted(reported, key=lambda r: r.key)):
        os.makedirs(vdir, exist_ok=True)
        safe = "".join(ch if ch.isalnum() or ch in "-_." else "_" for ch in r.key)[:150]
        rp = os.path.join(vdir, f"{safe}.json")
        with open(rp, "w") as f:
            json.dump(r.to_json(), f, indent=1)
        kind = "" if r.status == "violation" else " kind=unverifiable"
        lines.append(f"VIOLATION property={pid} replay={rp}{kind} rule={r.rule} key={r.key} at={r.loc} fn={r.fn} :: {r.msg}")
    wall = time.time() - t0
    n_inst = len(by_key)
    samples = [r.to_json() for r in sorted(by_key.values(), key=lambda r: (r.status == "ok", r.key))[:12]]
    per_rule = {}
    for r in by_key.values():
        d = per_rule.setdefault(r.rule, {"instances": 0, "ok": 0, "violations": 0, "unverifiable": 0})
        d["instances"] += 1
        d["ok" if r.status == "ok" else ("violations" if r.status == "violation" else "unverifiable")] += 1
    ev = {
        "property_id": pid,
        "tier": tier,
        "seed": seed,
        "level": "other",
        "coverage": {
            "explanation": getattr(mod, "EXPLANATION", "").strip(),
            "evaluations": max(1, len(all_results)),
            "distinct_nontrivial": max(len(rules_with_instances), 0),
            "rule": "static analysis of mir_built of /repo's working tree; one evaluation = one rule instance "
                    "(a call site, write site, CFG path, arm or definition matched by a rule) in one build "
                    "configuration; distinct_nontrivial = number of distinct rules that matched at least one instance",
            "samples": samples,
            "rules": per_rule,
            "distinct_instances": n_inst,
            "analysed": analysed,
            "configurations": cfg_list,
            "declined_clauses": getattr(mod, "DECLINED", []),
            "exhaustive": True,
        },
        "assumptions": getattr(mod, "ASSUMPTIONS", []) + [
            "rustc's MIR construction and type/trait resolution are correct (facts are read from mir_built of the real build)",
            "semantics of the futures/std items named in the rule tables (join polls both, FuturesUnordered::next yields one completion, mpsc is FIFO per sender)",
        ],
        "wall_s": round(wall, 2),
        "violations": len(reported) + (1 if build_error else 0),
        "known_findings": [known_keys[r.key]["what"] for r in known_hit],
    }
    if write_evidence:
        os.makedirs(evidence_dir, exist_ok=True)
        with open(os.path.join(evidence_dir, f"{pid}.json"), "w") as f:
            json.dump(ev, f, indent=1)
    try:
      out.write(f"[{pid}] tier={tier} cfgs={','.join(cfg_list)} rule-instances={n_inst} rules={len(rules_with_instances)} "
              f"violations={len(reported)} known={len(known_hit)} wall={wall:.1f}s\n")
      for rname in sorted(per_rule):
        d = per_rule[rname]
        out.write(f"   {rname}: {d['instances']} instance(s), {d['ok']} ok, {d['violations']} violation(s)"
                  f"{', ' + str(d['unverifiable']) + ' unverifiable' if d['unverifiable'] else ''}\n")
      for ln in lines:
        out.write(ln + "\n")
      out.flush()
    except BrokenPipeError:
        pass
    return 1 if (reported or build_error) else 0


def thorough_extras(pid, out=sys.stdout):
    """Thorough tier: additionally run the checker self-test (positive controls + seeded changes) for this property on
    scratch copies of /repo.  Its outcome is reported as `checker_health`; it never changes the property verdict."""
    import subprocess
    rc = 0
    mod = importlib.import_module(f"rules.{pid.lower()}")
    wit = getattr(mod, "WITNESS", None)
    if wit:
        w = subprocess.run([sys.executable, os.path.join(VERIF, "engine", "witness", "run.py")], stdout=subprocess.PIPE, stderr=subprocess.STDOUT, text=True)
        mine = [l for l in w.stdout.splitlines() if l.startswith("test ") and any(x in l for x in wit)]
        failed = [l for l in mine if not l.rstrip().endswith("ok")]
        okw = bool(mine) and not failed and w.returncode == 0
        out.write(f"[{pid}] type-level witnesses ({', '.join(wit)}): {len(mine)} doctests, {'all as expected' if okw else 'FAILED'}\n")
        p = os.path.join(VERIF, "evidence", f"{pid}.json")
        try:
            with open(p) as f:
                ev = json.load(f)
            ev["coverage"]["witnesses"] = {"cmd": "cargo +nightly test --doc --offline (engine/witness, path-dependency on /repo)", "doctests": mine, "ok": okw}
            if not okw:
                ev["violations"] = ev.get("violations", 0) + 1
            with open(p, "w") as f:
                json.dump(ev, f, indent=1)
        except Exception:
            pass
        if not okw:
            vdir = os.path.join(VERIF, "evidence", f"{pid}.violations")
            os.makedirs(vdir, exist_ok=True)
            rp = os.path.join(vdir, "witness.json")
            with open(rp, "w") as f:
                json.dump({"kind": "witness", "output": w.stdout[-4000:]}, f, indent=1)
            out.write(f"VIOLATION property={pid} replay={rp} rule=witness key={pid}/witness :: a type-level witness no longer behaves as specified: {failed[:2] or w.stdout[-300:]}\n")
            rc = 1
    st = os.path.join(VERIF, "bin", "selftest")
    if not os.path.exists(st) or os.environ.get("VERIF_NO_SELFTEST"):
        return rc        # (VERIF_NO_SELFTEST=1: only the rules on the thorough configurations + the witnesses; used to sweep all properties quickly)
    r = subprocess.run([st, "--property", pid, "--quiet"], stdout=subprocess.PIPE, stderr=subprocess.STDOUT, text=True)
    tail = r.stdout.strip().splitlines()[-6:]
    out.write(f"[{pid}] checker_health (self-test on scratch copies): {'ok' if r.returncode == 0 else 'ATTENTION'}\n")
    for ln in tail:
        out.write("      " + ln + "\n")
    p = os.path.join(VERIF, "evidence", f"{pid}.json")
    try:
        with open(p) as f:
            ev = json.load(f)
        ev["coverage"]["checker_health"] = {"selftest_exit": r.returncode, "summary": tail}
        with open(p, "w") as f:
            json.dump(ev, f, indent=1)
    except Exception:
        pass
    return rc
