"""C04 — every supplied scenario runs, nothing else runs, and the run always terminates (DESIGN §4 C04)."""
import re

from . import analysis as A
from . import roles
from .mir import Site, Unverifiable, callee_is, callee_path, const_int, fmt_span, op_const, op_fn, op_local, op_place, place_fields

CFGS = {"quick": ["default", "all"], "thorough": ["default", "all", "nodefault", "tracing", "libtest"]}

EXPLANATION = """
Static rules over the MIR of the scheduler: (R1) the enqueue path reads both scenario collections of a feature
through order/length-preserving iterator adaptors only and every element reaches a queue; (R2) every dequeued
entry becomes a run_scenario future pushed to the in-flight set, and the finished test inspects all queues;
(R3) nothing else starts attempts or fills the queues; (R4) ingestion and execution are joined in one task;
(R5) no suspension-free cycle: after deleting, from every runner coroutine's CFG, the edges on which the task
suspends (yield), the Ready edge of must-pend futures, the productive edge of bounded drivers and the Ready edge of
blocking awaits, the graph must be acyclic — a remaining cycle can repeat inside one poll forever and starve the
joined parser future; (R6) the yield primitive really yields (sets its flag, wakes, returns Pending first).
Decides the structural clauses only; wall-clock bounds and completion of user futures are not decided.
Added after the second seeded round: (R7) no user-code panic can unwind through the scheduler: every user callback call lies in the catch_unwind-guarded future (= C10.R1); (R8) with tracing, a received span-close id marks its entry also when a waiter subscribed first (= C20.R6), else the attempt waits forever.
"""
DECLINED = ["wall-clock bounds", "that user step/hook futures complete"]
ASSUMPTIONS = [
    "FuturesUnordered::next yields Ready(Some) once per completed element and Ready(None) only when empty",
    "thread::sleep(dur) returns after at least dur, so a retry deadline awaited through the oneshot has passed",
    "futures::lock::Mutex::lock may be Ready at the first poll (so it is NOT treated as a suspension)",
]

ORDER_PRESERVING = {"iter", "map", "chain", "flat_map", "collect", "cloned", "into_iter", "into_group_map_by",
                    "flatten", "copied", "by_ref", "enumerate", "zip", "inspect", "iter_mut", "once"}
LOSSY = {"filter", "skip", "take", "step_by", "rev", "skip_while", "take_while", "filter_map", "dedup", "nth",
         "last", "find", "find_map", "position", "max", "min", "max_by", "min_by", "max_by_key", "min_by_key",
         "unique", "sorted", "sorted_by", "sorted_by_key", "peekable", "fuse", "scan", "map_while", "reduce"}

MUST_PEND_TYPES = [r"^future::YieldNow$", r"^future::YieldThenReturn<", r"^futures::future::Then<.*, future::YieldThenReturn<"]


def iter_adaptor_name(term):
    f = op_fn(term["func"])
    if not f:
        return None
    tr = f.get("trait", "")
    if re.search(r"(^|::)(Iterator|Itertools|IntoIterator|DoubleEndedIterator)$", tr) or re.search(
            r"slice::<impl \[.*\]>::iter(_mut)?$", f["path"]):
        return f["path"].rsplit("::", 1)[-1]
    return None


# ---- roles ----------------------------------------------------------------------------------------

def role_insert(F):
    """INSERT := the unique crate-local async fn called by the ingestion body (receives each parsed feature)."""
    ing = roles.insert_features(F)
    cands = []
    for s, t in ing.calls():
        co = roles.async_callee(F, ing, t)
        if co is not None:
            cands.append((s, t, co))
    if len(cands) != 1:
        raise Unverifiable(f"INSERT role: {len(cands)} async crate-local callees in {ing.short}")
    return cands[0]


def role_enqueue(F):
    """ENQUEUE := the unique crate-local async fn called by INSERT (stores the batch into the queues)."""
    _, _, ins = role_insert(F)
    cands = []
    for s, t in ins.calls():
        co = roles.async_callee(F, ins, t)
        if co is not None:
            cands.append((s, t, co))
    if len(cands) != 1:
        raise Unverifiable(f"ENQUEUE role: {len(cands)} async crate-local callees in {ins.short}")
    return cands[0]


def role_get(F):
    """GET := async crate-local callee awaited in EXECUTE whose output is a tuple starting with a Vec (the batch)."""
    ex = roles.execute(F)
    out = []
    for aw in A.awaits(ex):
        res = aw.poll_resolved
        if res and re.search(r"Output = \(std::vec::Vec<", aw.fut_type):
            b = F.body(res)
            if b is not None:
                out.append((aw, b))
    if len(out) != 1:
        raise Unverifiable(f"GET role: {len(out)} candidates in {ex.short}")
    return out[0]


def role_is_finished(F):
    ex = roles.execute(F)
    out = []
    for aw in A.awaits(ex):
        res = aw.poll_resolved
        if res and re.search(r"Output = bool>$", aw.fut_type):
            b = F.body(res)
            if b is not None:
                out.append((aw, b))
    if len(out) != 1:
        raise Unverifiable(f"IS_FINISHED role: {len(out)} candidates in {ex.short}")
    return out[0]


def role_run_fn(F):
    """RUN := the fn item whose coroutine is RUN_SCENARIO."""
    rs = roles.run_scenario(F)
    p = F.parent_body(rs)
    if p is None:
        raise Unverifiable("RUN_SCENARIO has no parent fn")
    return p, rs


def loop_enqueue_idiom(F, ins):
    """The explicit-loop spelling of INSERT's pipeline (`for s in &feature.scenarios { add(None, s) } for r in .. { for s in .. }`
    with `add = |..| map.entry(classifier(..)).or_default().push(entry)`).  Returns {"ok_next": {(body key, site key)},
    "pushes": [(body, site, term, entry_term or None, container (body, local) or None)]}."""
    bodies = F.nested(ins)
    pushes = []
    for b in bodies:
        for s, t in b.calls(lambda t: callee_is(t, r"Vec::<.*>::push$")):
            ch = A.receiver_chain(b, t["args"][0])
            ent = [(cs, ct) for cs, ct in ch if callee_is(ct, r"(HashMap|BTreeMap|IndexMap|LinkedHashMap)::<.*>::entry$")]
            cont = None
            if ent:
                l = op_local(ent[-1][1]["args"][0])
                if l is not None:
                    cb, cp = A.canon_place_deep(F, b, {"l": l, "p": ["*"]})
                    if not cp["p"]:
                        cont = (cb, cp["l"])
            pushes.append((b, s, t, ent[-1][1] if ent else None, cont))
    storing = {}
    for b, s, t, ent, cont in pushes:
        if b is not ins and not b.is_coroutine and not b.entry_reaches_return(stop=[s]):
            storing[b.key] = b
    ok_next = set()
    for b in bodies:
        nexts = [(s, t) for s, t in b.calls(lambda t: iter_adaptor_name(t) == "next")]
        for s, t in nexts:
            handlers = {s2.bb for s2, t2 in nexts if s2 != s}
            handlers |= {s2.bb for b2, s2, t2, _, _ in pushes if b2 is b}
            for s2, t2 in b.calls(lambda t2: callee_is(t2, r"ops::Fn(Mut|Once)?::call(_mut|_once)?$")):
                kb = A.closure_of_operand(F, b, t2["args"][0]) if t2["args"] else None
                if kb is not None and kb.key in storing:
                    handlers.add(s2.bb)
            if A.for_loop_handles_every_element(b, s, t, handlers):
                ok_next.add((b.key, s.key()))
    return {"ok_next": ok_next, "pushes": pushes}


# ---- R1 -------------------------------------------------------------------------------------------

def r1(F, R):
    s_call, t_call, ins = role_insert(F)
    bodies = F.nested(ins)
    fields = set()
    for b in bodies:
        for site, st in b.assigns():
            for pl in A.rvalue_places(st["rv"]):
                fields.update(place_fields(pl))
    for owner, name, inst in (("gherkin::Feature", "scenarios", "reads-feature-scenarios"),
                              ("gherkin::Rule", "scenarios", "reads-rule-scenarios"),
                              ("gherkin::Feature", "rules", "reads-feature-rules")):
        R.check((owner, name) in fields, inst, ins,
                f"enqueue path reads {owner}.{name}", f"enqueue path {ins.short} never reads {owner}.{name}: those scenarios are not enqueued")
    # adaptor whitelist over the whole enqueue expression (body + nested closures)
    idiom = loop_enqueue_idiom(F, ins)
    n = 0
    for b in bodies:
        for site, t in b.calls():
            nm = iter_adaptor_name(t)
            if nm is None:
                continue
            n += 1
            if nm == "next" and (b.key, site.key()) in idiom["ok_next"]:
                R.ok("adaptor/for-loop", site, "`for` loop left only at the iterator's end, every element is stored")
            elif nm in LOSSY or nm not in ORDER_PRESERVING:
                R.violation(f"adaptor/{nm}", site, f"iterator adaptor `{nm}` on the enqueue path may drop or reorder scenarios")
            else:
                R.ok(f"adaptor/{nm}", site, "length-preserving adaptor")
    # the batch handed to ENQUEUE is data-dependent on the chain
    s2, t2, enq = role_enqueue(F)
    sl = A.slice_back(ins, t2["args"])
    batch_locals = {A.canon_place(ins, op_place(a))["l"] for a in t2["args"] if op_place(a) is not None}
    filled = any(cont is not None and cont[0] is ins and cont[1] in batch_locals for _, _, _, _, cont in idiom["pushes"])
    R.check(sl.has_call(r"into_group_map_by$") or sl.has_call(r"Iterator::(chain|collect)$") or filled, "batch-from-chain", s2,
            "batch passed to ENQUEUE derives from the scenario chain", "batch passed to ENQUEUE does not derive from the scenario iterator chain")
    # ENQUEUE: every element of every loop over scenario entries is stored
    loops = 0
    STORE = (r"Vec::<.*>::(push|insert|extend)$", r"Vec.*::extend$", r"Extend::extend$", r"Vec::<.*>::append$")
    for site, t in enq.calls(lambda t: callee_is(t, r"Iterator::next$")):
        dest_ty = enq.locals[t["dest"]["l"]]
        if "event::Source<gherkin::Scenario>" not in dest_ty:
            continue
        # is this an element loop (item is the entry tuple) or a group loop (item contains Vec<entry>)?
        loops += 1
        nb = t["t"]
        sw = enq.blocks[nb]["term"]
        if sw["k"] != "switch":
            R.unverifiable("loop-shape", "next() not followed by a switch", site)
            continue
        some_t = [tg for v, tg in sw["targets"] if v == 1] or [sw["otherwise"]]
        stores = [s for s, tt in enq.calls(lambda tt: callee_is(tt, *STORE))]
        # inner element loops count as "stores" for the outer group loop only if they themselves are checked
        group_loop = "std::vec::Vec<(" in dest_ty
        stop = list(stores)
        if group_loop:
            # inner `next()` over the group's values
            stop += [s for s, tt in enq.calls(lambda tt: callee_is(tt, r"Iterator::next$")) if s != site and
                     "event::Source<gherkin::Scenario>" in enq.locals[tt["dest"]["l"]]]
        start = Site(enq, some_t[0], 0) if enq.blocks[some_t[0]]["stmts"] else Site(enq, some_t[0], "T")
        # from Some-target: can we get back to the next() call without passing a store?
        back = _reaches_block(enq, some_t[0], site.bb, stop)
        R.check(not back, f"enqueue-loop/{'group' if group_loop else 'element'}/{loops}", site,
                "every iteration stores its element(s)", "a path through this loop iteration reaches the next element without storing the current one (scenario dropped)")
    R.check(loops >= 3, "enqueue-loops-found", enq, f"{loops} loops over scenario entries", f"only {loops} loops over scenario entries found")
    R.floor(8)


def _reaches_block(body, start_bb, target_bb, stop_sites):
    stop_bbs = {s.bb for s in stop_sites}
    seen = set()
    work = [start_bb]
    while work:
        x = work.pop()
        if x in seen:
            continue
        seen.add(x)
        if x == target_bb:
            return True
        if x in stop_bbs:
            continue
        work.extend(body.succ[x])
    return False


# ---- R2 -------------------------------------------------------------------------------------------

def r2(F, R):
    ex = roles.execute(F)
    run_fn, rs = role_run_fn(F)
    aw_get, get_body = role_get(F)
    calls = [(s, t) for s, t in ex.calls() if F.callee_body(t) is run_fn]
    R.check(len(calls) == 1, "single-dispatch-site", ex, "one run_scenario call in EXECUTE", f"{len(calls)} run_scenario calls in EXECUTE")
    if len(calls) != 1:
        return
    s_run, t_run = calls[0]
    # the args come from `next()` of an IntoIter over the GET result
    sl = A.slice_back(ex, t_run["args"][1:])
    nexts = sl.calls_matching(r"Iterator::next$")
    R.check(len(nexts) == 1, "dispatch-args-from-batch-iter", s_run, "arguments of run_scenario are the items of one iterator",
            f"arguments of run_scenario slice to {len(nexts)} iterator next() calls")
    if len(nexts) != 1:
        return
    s_next, t_next = nexts[0]
    sl_it = A.slice_back(ex, t_next["args"])
    into = sl_it.calls_matching(r"IntoIterator::into_iter$")
    bad = [callee_path(t) for s, t in sl_it.calls if iter_adaptor_name(t) and iter_adaptor_name(t) not in ("into_iter", "next")]
    polls = [s for s, t in sl_it.calls if s == aw_get.poll_site]
    R.check(bool(into) and not bad and bool(polls), "batch-iter-is-get-result", s_next,
            "the iterated vector is the value returned by GET, no adaptor in between",
            f"iterated batch is not exactly the GET result (into_iter={len(into)}, adaptors={bad}, from-get={bool(polls)})")
    # every iteration pushes
    pushes = [(s, t) for s, t in ex.calls(lambda t: callee_is(t, r"FuturesUnordered::<.*>::push$"))]
    R.check(len(pushes) == 1, "single-push-site", ex, "", f"{len(pushes)} FuturesUnordered::push sites")
    if len(pushes) != 1:
        return
    s_push, t_push = pushes[0]
    slp = A.slice_back(ex, [t_push["args"][1]])
    R.check(any(s == s_run for s, _ in slp.calls), "pushed-future-is-run-scenario", s_push,
            "the pushed future is the run_scenario future", "the future pushed to the in-flight set does not derive from run_scenario")
    sw = ex.blocks[t_next["t"]]["term"]
    some_t = [tg for v, tg in sw["targets"] if v == 1] if sw["k"] == "switch" else []
    if not some_t:
        R.unverifiable("batch-loop-shape", "next() not followed by a switch with a Some edge", s_next)
        return
    back = _reaches_block(ex, some_t[0], s_next.bb, [s_push])
    R.check(not back, "every-dequeued-entry-is-pushed", s_push, "no path of the batch loop skips the push",
            "a path through the batch loop reaches the next entry without pushing a run_scenario future (dequeued scenario never runs)")
    # the push is not under any further condition inside the loop body: guards of push ⊆ guards of Some edge
    gs = [g for g in A.guards_of(ex, s_push) if g.bb != t_next["t"] and _reaches_block(ex, some_t[0], g.bb, [s_next])]
    R.check(not gs, "push-unconditional-in-loop", s_push, "", f"push is guarded by extra condition(s) inside the loop: {gs}")

    # IS_FINISHED inspects every queue
    aw_fin, fin = role_is_finished(F)
    bodies = F.nested(fin)
    has_all = any(callee_is(t, r"Iterator::all$") for b in bodies for _, t in b.calls())
    has_values = any(callee_is(t, r"HashMap::<.*>::values$", r"HashMap.*::values$") for b in bodies for _, t in b.calls())
    is_empty = any(f and re.search(r"Vec::<.*>::is_empty$|::is_empty$", f["path"]) for b in bodies for _, _, f in _fn_values(b))
    loads = any(callee_is(t, r"AtomicBool::load$", r"Atomic.*::load$") for b in bodies for _, t in b.calls())
    R.check(has_all and has_values and is_empty, "finished-needs-all-queues-empty", fin,
            "IS_FINISHED = … all(values, is_empty)", "IS_FINISHED does not test that *all* queues are empty (values().all(is_empty))")
    R.check(loads, "finished-needs-flag", fin, "IS_FINISHED reads the finished flag", "IS_FINISHED does not read the finished flag")
    check_finished_requires_flag(F, R, "finished-only-after-parser-finished")
    R.floor(9)


def check_finished_requires_flag(F, R, inst):
    """Path table of IS_FINISHED: the result can be true only on paths where the finished flag was loaded as true."""
    aw_fin, fin = role_is_finished(F)
    paths = A.enumerate_paths(fin)
    bad = []
    for p in paths:
        flag = [o for a, o in p.decisions if re.search(r"Atomic\w*::load\(", a)]
        if p.ret is False:
            continue
        if flag != ["true"]:
            bad.append([(a[:40], o) for a, o in p.decisions])
    R.check(bool(paths) and not bad, inst, fin, "IS_FINISHED = finished && (…): true only when the finished flag is set",
            f"IS_FINISHED can return true although the parser has not finished (path {bad[:1]}): run-Finished can be emitted while features / "
            "ParsingFinished / parser errors are still to come")


def _fn_values(b):
    for bi in sorted(b.live_blocks):
        blk = b.blocks[bi]
        t = blk["term"]
        if t["k"] == "call":
            for a in t["args"]:
                f = op_fn(a)
                if f:
                    yield Site(b, bi, "T"), "arg", f
            f = op_fn(t["func"])
            if f:
                yield Site(b, bi, "T"), "call", f


# ---- R3 -------------------------------------------------------------------------------------------

def r3(F, R):
    run_fn, rs = role_run_fn(F)
    ex = roles.execute(F)
    refs = F.fn_refs("^" + re.escape(run_fn.name) + "$")
    in_ex = [r for r in refs if r[0].body is ex and r[1] == "call"]
    R.check(len(refs) == 1 and len(in_ex) == 1, "run-scenario-only-from-batch-loop", run_fn,
            "run_scenario is referenced exactly once, from EXECUTE", f"run_scenario referenced at {[str(r[0].loc) for r in refs]}")
    # queue writers: bodies locking the scenario storage and calling a Vec growing method
    s2, t2, enq = role_enqueue(F)
    enq_fn = F.parent_body(enq)
    callers = F.fn_refs("^" + re.escape(enq_fn.name) + "$")
    roots = sorted({F.root_fn(r[0].body).short for r in callers})
    R.check(len(callers) == 2, "enqueue-callers", enq_fn, f"ENQUEUE called from {roots}",
            f"ENQUEUE is called from {len(callers)} sites {roots}; expected parser insert + retry re-insert only")
    # the retry re-insert is only called from RUN_SCENARIO
    _, _, ins = role_insert(F)
    for site, kind, f in callers:
        root = F.root_fn(site.body)
        if root is F.parent_body(ins):
            continue
        rr = F.fn_refs("^" + re.escape(root.name) + "$")
        ok = len(rr) == 1 and F.root_fn(rr[0][0].body) is run_fn
        R.check(ok, "reinsert-only-from-run-scenario", root, "retry re-insert referenced only from run_scenario",
                f"{root.short} referenced from {[F.root_fn(x[0].body).short for x in rr]}")
    # who grows the queues: any body in the runner module that locks a Mutex<Scenarios> and pushes
    growers = set()
    for b in F.crate_bodies():
        if not any(callee_is(t, r"Mutex::<.*>::lock$", r"lock::Mutex.*::lock$") for _, t in b.calls()):
            continue
        if "runner::basic" not in b.name:
            continue
        if any(callee_is(t, r"Vec::<.*>::(push|insert|extend|append)$", r"Extend::extend$") for _, t in b.calls()):
            growers.add(F.root_fn(b).short)
    R.check(growers == {enq_fn.short}, "only-enqueue-grows-queues", enq_fn, f"queue growers: {sorted(growers)}",
            f"bodies that lock the storage and grow a Vec: {sorted(growers)} (expected only {enq_fn.short})")
    R.floor(4)


# ---- R4 -------------------------------------------------------------------------------------------

def r4(F, R):
    ex = roles.execute(F)
    ing = roles.insert_features(F)
    ex_fn, ing_fn = F.parent_body(ex), F.parent_body(ing)
    runs = [b for adt, b in roles.trait_impl_methods(F, r"runner::Runner$", "run") if adt == "runner::basic::Basic"]
    if len(runs) != 1:
        raise Unverifiable(f"Runner::run impl for Basic: {len(runs)}")
    run = runs[0]
    joins = [(s, t) for s, t in run.calls(lambda t: callee_is(t, r"future::join$", r"futures_util::future::join$", r"::join$"))]
    joins = [(s, t) for s, t in joins if len(t["args"]) == 2]
    R.check(len(joins) == 1, "one-join", run, "", f"{len(joins)} join calls in Runner::run")
    if len(joins) != 1:
        return
    s, t = joins[0]
    sides = []
    for a in t["args"]:
        sl = A.slice_back(run, [a])
        cs = {F.callee_body(tt).short for _, tt in sl.calls if F.callee_body(tt) in (ex_fn, ing_fn)}
        sides.append(cs)
    ok = sides[0] | sides[1] == {ex_fn.short, ing_fn.short} and all(len(x) == 1 for x in sides)
    R.check(ok, "join-of-ingest-and-execute", s, "future::join(insert_features, execute)",
            f"join operands derive from {sides}; ingestion and execution must be joined in one task")
    # and both are called exactly once in the crate
    for fn in (ex_fn, ing_fn):
        refs = F.fn_refs("^" + re.escape(fn.name) + "$")
        R.check(len(refs) == 1 and refs[0][0].body is run, f"single-start/{fn.short.rsplit('::', 1)[-1]}", fn, "",
                f"{fn.short} referenced {len(refs)} times")
    # the shared buffer: both receive clones of the same Features value
    R.floor(4)


# ---- R5 -------------------------------------------------------------------------------------------

def is_must_pend(ty):
    return any(re.search(r, ty) for r in MUST_PEND_TYPES)


def bounded_driver_calls(F, body):
    """Call sites whose `Some`/`Ok(Some)` result edge consumes one item of a finite resource."""
    out = []
    for site, t in body.calls():
        if callee_is(t, r"Iterator::next$"):
            out.append((site, t, "iterator"))
        elif callee_is(t, r"UnboundedReceiver::<.*>::try_next$", r"UnboundedReceiver.*::try_next$"):
            out.append((site, t, "channel"))
        else:
            cb = F.callee_body(t, body.crate)
            if cb is not None and _is_derived_driver(F, cb):
                out.append((site, t, "derived"))
            else:
                # combinator passing a derived driver as fn item: Option::and_then(x, derived_driver)
                for a in t["args"]:
                    f = op_fn(a)
                    if f and f.get("local"):
                        fb = F.body(f["path"], body.crate)
                        if fb is not None and _is_derived_driver(F, fb) and callee_is(t, r"Option::<.*>::(and_then|map)$"):
                            out.append((site, t, "derived-via-combinator"))
    return out


def _is_derived_driver(F, fb, depth=0):
    """A crate-local fn returning Option<_> whose value derives only from a bounded driver's result
    (`try_next().ok().flatten()…`/`iterator.next()`) through Option/Result plumbing."""
    if depth > 2 or fb.is_coroutine:
        return False
    if not fb.locals[0].startswith("std::option::Option<"):
        return False
    sl = A.slice_back(fb, start_locals=[0])
    drivers = [t for _, t in sl.calls if callee_is(t, r"UnboundedReceiver.*::try_next$", r"Iterator::next$", r"Receiver.*::try_recv$")]
    # (or a private helper that is itself such a driver: `try_recv(&mut self.rx)?`)
    drivers += [t for _, t in sl.calls if F.callee_body(t, fb.crate) is not None and F.callee_body(t, fb.crate) is not fb and _is_derived_driver(F, F.callee_body(t, fb.crate), depth + 1)]
    if not drivers:
        return False
    # the returned Option must be None whenever the driver yields nothing: all Some-aggregates / results flow
    # from the driver through plumbing calls only
    for _, t in sl.calls:
        if callee_is(t, r"try_next$", r"Iterator::next$", r"Result::<.*>::ok$", r"Option::<.*>::(flatten|map|and_then|filter|take)$",
                     r"try_recv$", r"Deref(Mut)?::deref(_mut)?$", r"Option::<.*>::as_mut$", r"Option::<.*>::as_ref$",
                     r"Try::branch$", r"FromResidual", r"Into::into$", r"From::from$"):
            continue
        cb = F.callee_body(t, fb.crate)
        if cb is not None:
            continue  # crate-local transformation of the received item
        return _derived_driver_by_table(F, fb)
    return True


DRIVER_RX = r"UnboundedReceiver(::<.*>)?::try_next$|Iterator::next$|Receiver(::<.*>)?::try_recv$"


def _derived_driver_by_table(F, fb):
    """Spelling-independent version: on the fn's deep path table every path that returns `Some(..)` learned that the
    driver produced an item (its result was Some / Ok(Some)); so the fn yields Some at most once per item of the
    finite resource."""
    from . import deep as D
    try:
        paths = D.Deep(F, fb, inline=False, max_paths=2000).run()
    except Unverifiable:
        return False
    some = 0
    # crate-local helpers that are themselves drivers (`fn try_recv(rx) -> Option<T> { rx.try_next().ok().flatten() }`)
    helper_drivers = set()
    for _, t in fb.calls():
        cb = F.callee_body(t, fb.crate)
        if cb is not None and cb is not fb and cb.name not in helper_drivers and _is_derived_driver(F, cb, 1):
            helper_drivers.add(cb.name)
    is_drv = lambda x: x[0] == "call" and (re.search(DRIVER_RX, x[1]) or x[1] in helper_drivers)
    for p in paths:
        if p.cut:
            continue
        if D.is_variant(p.ret, "std::option::Option", "None"):
            continue
        if not D.is_variant(p.ret, "std::option::Option", "Some"):
            return False
        some += 1
        ok = False
        for a, o in p.conds:
            if a[0] == "discr" and o == "Some" and D.mentions(a[1], is_drv):
                # the *first* driver call of the path (not one inside a later loop over something else)
                ok = True
        if not ok:
            return False
    return some >= 1


def cut_edges(F, body, R=None, note=None):
    """Edges of `body`'s normal CFG along which the task suspends or consumes a finite resource."""
    cuts = {}
    for bi in body.live_blocks:
        t = body.blocks[bi]["term"]
        if t["k"] == "yield":
            cuts[(bi, t["resume"])] = "yield"
    for aw in A.awaits(body):
        ty = aw.fut_type
        kind = None
        if is_must_pend(ty):
            kind = "must-pend"
        elif re.search(r"oneshot::Receiver<", ty):
            kind = "blocking(oneshot)"
        elif re.search(r"stream::Next<'_, futures::stream::FuturesUnordered<", ty) or (
                re.search(r"SelectWithBiasedFirst<", ty) and re.search(r"FuturesUnordered<", ty)):
            kind = "in-flight-completion"
        elif re.search(r"stream::Next<", ty):
            kind = "stream-next"
        elif aw.poll_resolved and _helper_must_suspend(F, aw.poll_resolved, body):
            kind = "helper-must-suspend"
        if kind:
            cuts[(aw.switch_bb, aw.ready_bb)] = kind
            if note is not None:
                note.append((aw, kind))
    for site, t, kind in bounded_driver_calls(F, body):
        # follow to the switch on the result's discriminant; cut Some / Ok->Some edges
        for (a, b) in _productive_edges(body, t):
            cuts[(a, b)] = f"driver({kind})"
    return cuts


_MS_STACK = []


def _helper_must_suspend(F, res, caller):
    """Awaiting a crate-local `async fn` helper suspends (or blocks / consumes) iff every path through the helper's
    coroutine from entry to return crosses one of *its* suspension edges."""
    co = F.body(res, caller.crate)
    if co is None or not co.is_coroutine or co.key in _MS_STACK or co is caller:
        return False
    _MS_STACK.append(co.key)
    try:
        cuts = cut_edges(F, co)
    finally:
        _MS_STACK.pop()
    seen, work = set(), [0]
    while work:
        x = work.pop()
        if x in seen:
            continue
        seen.add(x)
        if co.blocks[x]["term"]["k"] == "return":
            return False
        for y in co.succ[x]:
            if (x, y) not in cuts:
                work.append(y)
    return True


def _productive_edges(body, t):
    out = []
    dest = t["dest"]["l"]
    # find switches whose discriminant place is based on dest (possibly via moves)
    aliases = {dest}
    for _ in range(4):
        for l, ds in body.defs.items():
            for s, kind, payload in ds:
                if kind == "assign" and payload["rv"]["k"] == "use":
                    src = op_place(payload["rv"]["op"])
                    if src is not None and src["l"] in aliases and not src["p"]:
                        aliases.add(l)
    for bi in body.live_blocks:
        tt = body.blocks[bi]["term"]
        if tt["k"] != "switch":
            continue
        l = op_local(tt["discr"])
        if l is None:
            continue
        d = A.local_def_desc(body, l)
        if not d or d[0] != "discr":
            continue
        pl = d[1]
        if pl["l"] not in aliases:
            continue
        vmap = {v: n for v, n in d[3]}
        for v, tg in tt["targets"]:
            if vmap.get(v) == "Some":
                out.append((bi, tg))
        if tt["otherwise"] not in [tg for _, tg in tt["targets"]]:
            listed = {v for v, _ in tt["targets"]}
            rest = [n for val, n in vmap.items() if val not in listed]
            if rest == ["Some"]:
                out.append((bi, tt["otherwise"]))
    return out


def runner_coroutines(F):
    """Coroutine bodies of the runner: everything nested in fns reachable from Runner::run inside `runner::`
    plus the yield primitives' users."""
    out = []
    for b in F.crate_bodies():
        if b.is_coroutine and (b.name.startswith("runner::") or b.name.startswith("<runner::")):
            out.append(b)
    return out


def r5(F, R):
    cors = runner_coroutines(F)
    n_cycles_examined = 0
    per_body = {}
    for b in cors:
        notes = []
        cuts = cut_edges(F, b, note=notes)
        live = sorted(b.live_blocks)
        succ = lambda n: [s for s in b.succ[n] if (n, s) not in cuts]
        sccs = A.all_cycles_sccs(live, succ)
        # count source-level cycles examined: SCCs of the uncut graph minus poll loops
        raw = A.all_cycles_sccs(live, lambda n: [s for s in b.succ[n] if cuts.get((n, s)) != "yield"])
        n_cycles_examined += len(raw)
        per_body[b.key] = len(raw)
        key_base = b.short
        if not sccs:
            R.ok(f"acyclic/{key_base}", b, f"{len(raw)} loop(s), all cross a suspension or bounded-driver edge; cuts={sorted(set(cuts.values()))}")
            continue
        for comp in sccs:
            comp = sorted(comp)
            calls = []
            for bi in comp:
                t = b.blocks[bi]["term"]
                if t["k"] == "call":
                    p = callee_path(t) or t["fty"]
                    p = re.sub(r"<.*>", "", p)
                    calls.append(p.rsplit("::", 2)[-2:] if "::" in p else [p])
            awaited = sorted({_short_fut(aw) for aw in A.awaits(b) if aw.poll_site.bb in comp})
            path = [{"bb": bi, "where": fmt_span(b.blocks[bi]["term"].get("sp", ""))} for bi in comp if b.blocks[bi]["term"].get("sp")]
            lines = sorted({p["where"] for p in path})
            inst = f"cycle/{key_base}/awaits:{'+'.join(awaited) or 'none'}"
            R.violation(inst, Site(b, comp[0], "T"),
                        f"suspension-free cycle of {len(comp)} blocks ({lines[0]} … {lines[-1]}): it can repeat inside one poll "
                        f"without yielding, suspending or consuming input; awaits on it: {awaited or 'none'} (all may be Ready at once)",
                        path=path)
    # non-vacuity: the scheduling loop (EXECUTE) and the ingestion loop (INSERT) are among the loops examined
    _ex, _ins = roles.execute(F), roles.insert_features(F)
    R.check(per_body.get(_ex.key, 0) >= 1 and per_body.get(_ins.key, 0) >= 1 and n_cycles_examined >= 3, "cycles-examined", None,
            f"{n_cycles_examined} loops examined in {len(cors)} runner coroutines (scheduling loop and ingestion loop among them)",
            f"the scheduling / ingestion loops are not among the {n_cycles_examined} loops examined")
    # the in-flight completion await is reached only when something is in flight
    ex = roles.execute(F)
    infl = [aw for aw in A.awaits(ex) if re.search(r"FuturesUnordered<", aw.fut_type)]
    R.check(len(infl) == 1, "in-flight-await-unique", ex, "", f"{len(infl)} awaits on the in-flight set")
    for aw in infl:
        # element type must be a must-pend future (then_yield)
        m = re.search(r"FuturesUnordered<(.*)>", aw.fut_type)
        R.check(bool(m) and "future::YieldThenReturn<" in m.group(1), "in-flight-elements-yield", aw.poll_site,
                "every in-flight future is a then_yield future", f"in-flight element type is not a then_yield future: {aw.fut_type[:120]}")
        # non-emptiness, on the paths from the scheduling round's start (GET's result) to the completion await: each one
        # learned `in-flight set not empty` or `batch not empty` (deep path enumeration: spelling-independent)
        from . import deep as D
        aw_get, _get = role_get(F)
        dp = D.Deep(F, ex, inline=False, stop_at=[aw.poll_site.bb], max_paths=20000).run(start_bb=aw_get.ready_bb)
        reached = [p for p in dp if p.ret and p.ret[0] == "reached"]
        ok = bool(reached)
        for p in reached:
            nonempty = False
            for atom, out in p.conds:
                if atom[0] == "call" and out is False and (re.search(r"FuturesUnordered(::<.*>)?::is_empty$", atom[1]) or re.search(r"Vec(::<.*>)?::is_empty$", atom[1])):
                    nonempty = True
                if atom[0] == "bin" and atom[1] in ("Eq", "Ne", "Gt", "Lt", "Ge", "Le") and D.mentions(atom, lambda x: x[0] == "call" and re.search(r"(FuturesUnordered|Vec)(::<.*>)?::len$", x[1])):
                    nonempty = nonempty or (atom[1], out) in (("Eq", False), ("Ne", True), ("Gt", True))
            ok = ok and nonempty
        R.check(ok, "in-flight-await-nonempty", aw.poll_site, "the completion await is unreachable from the 'nothing running ∧ nothing runnable' edge",
                "the completion await can be reached with an empty in-flight set (next() is then Ready(None) forever)")
    R.floor(6)


def _short_fut(aw):
    res = aw.poll_resolved
    if res:
        res = re.sub(r"::\{closure#\d+\}", "", res)
        res = re.sub(r"<.*>", "", res)
        return res.rsplit("::", 1)[-1]
    ty = re.sub(r"<.*", "", aw.fut_type)
    return ty.rsplit("::", 1)[-1]


# ---- R6 -------------------------------------------------------------------------------------------

def r6(F, R):
    polls = [b for b in F.crate_bodies() if b.impl and re.search(r"(^|::)Future$", b.impl.get("trait", "")) and b.name.endswith("::poll")]
    yn = [b for b in polls if b.impl["self_adt"] == "future::YieldNow"]
    ytr = [b for b in polls if b.impl["self_adt"] == "future::YieldThenReturn"]
    sel = [b for b in polls if b.impl["self_adt"] == "future::SelectWithBiasedFirst"]
    if len(yn) != 1 or len(ytr) != 1 or len(sel) != 1:
        raise Unverifiable(f"yield primitives: YieldNow={len(yn)} YieldThenReturn={len(ytr)} Select={len(sel)}")
    # YieldNow::poll on its deep path table: rows (flag?, effects, result)
    from . import deep as D
    b = yn[0]
    is_flag = lambda x: isinstance(x, tuple) and x[0] == "field" and x[2] == 0 and D.mentions(x, lambda y: y == ("arg", 1)) and \
        not D.mentions(x, lambda y: y[0] in ("call", "await"))
    def has_self(x):
        return isinstance(x, tuple) and (x in (("arg", 1), ("L", 0, 1)) or any(has_self(y) for y in x))
    is_flag_place = lambda pl: pl[0] == "field" and pl[2] == 0 and has_self(pl[1])
    rows = D.Deep(F, b, max_paths=50).run()
    if not rows or any(p.cut for p in rows):
        raise Unverifiable("YieldNow::poll: empty path table or a loop")
    def res(p):
        return "Pending" if D.is_variant(p.ret, "std::task::Poll", "Pending") else "Ready" if D.is_variant(p.ret, "std::task::Poll", "Ready") else "?"
    def flag_of(p):
        v = [out for a_, out in p.conds if is_flag(a_)]
        return v[0] if v else None
    pend = [p for p in rows if res(p) == "Pending"]
    ready = [p for p in rows if res(p) == "Ready"]
    R.check(len(pend) >= 1 and len(ready) >= 1 and len(pend) + len(ready) == len(rows), "yieldnow/both-results", b, "", "YieldNow::poll lacks a Pending or a Ready path")
    # the flag's polarity is the code's business: `fresh` is the value every constructor stores, `done` the other one
    ctors = roles.builders_of(F, "future::YieldNow", "YieldNow")
    vals = sorted({const_int(st["rv"]["ops"][0]) for _, _, st in ctors})
    R.check(len(vals) == 1 and vals[0] in (0, 1), "yieldnow/starts-unyielded", ctors[0][0] if ctors else None,
            "every YieldNow is created with the same flag value", f"a YieldNow is created with flag values {vals}")
    if len(vals) != 1 or vals[0] not in (0, 1):
        return
    fresh, done = bool(vals[0]), not bool(vals[0])
    for p in pend:
        R.check(any(e[0] == "call" and re.search(r"Waker::wake(_by_ref)?$", e[1]) for e in p.effects), "yieldnow/pending-after-wake", b,
                "Pending is returned only after wake_by_ref", "YieldNow returns Pending without waking the task first (lost wake-up: the run hangs)")
        R.check(any(e[0] == "write" and is_flag_place(e[1]) and e[2] == ("const", done) for e in p.effects), "yieldnow/pending-sets-flag", b,
                "Pending path flips the flag", "YieldNow returns Pending without flipping its flag (it would never become Ready)")
        R.check(flag_of(p) is fresh, "yieldnow/pending-only-when-fresh", b, "Pending only in the state the constructor creates",
                "YieldNow returns Pending in the state it reaches after having yielded (it never completes)")
    for p in ready:
        R.check(flag_of(p) is done, "yieldnow/ready-only-when-flag", b, "Ready only after the flag was flipped",
                "YieldNow returns Ready in the state its constructor creates: a fresh yield_now() completes at once and never yields "
                "(the idle branch of the runner spins inside one poll, the parser is starved)")
    for p in rows:
        if flag_of(p) is done:
            R.check(res(p) == "Ready", "yieldnow/ready-when-flag", b, "a yielded YieldNow completes", "YieldNow stays Pending after it has yielded (the run hangs)")
    # YieldThenReturn polls the yield first and returns Pending when it pends
    # on YieldThenReturn::poll's path table
    b = ytr[0]
    rows = D.Deep(F, b, max_paths=100).run()
    if not rows or any(p.cut for p in rows):
        raise Unverifiable("YieldThenReturn::poll: empty path table or a loop")
    is_poll = lambda e: e[0] == "call" and re.search(r"::poll(_unpin)?$", e[1]) is not None
    for p in rows:
        polls_ = [i for i, e in enumerate(p.effects) if is_poll(e)]
        R.check(len(polls_) == 1, "ytr/polls-yield", b, "", f"YieldThenReturn::poll polls its YieldNow {len(polls_)} times on some path")
        if len(polls_) != 1:
            continue
        pc = p.effects[polls_[0]]
        pterm = ("call", pc[1], pc[2], pc[4])
        st_ = [out for a_, out in p.conds if a_ == ("discr", pterm)]
        touched = [i for i, e in enumerate(p.effects) if e[0] == "write" or (e[0] == "call" and re.search(r"Option::<.*>::take$", e[1]))]
        for i in touched:
            R.check(i > polls_[0], "ytr/yield-before-value", b, "value is taken only after the yield was polled",
                    "YieldThenReturn takes its value before polling the yield")
        if touched or res(p) == "Ready":
            R.check(st_ == ["Ready"], "ytr/value-only-when-yield-ready", b, "value is returned only when the yield is Ready",
                    f"YieldThenReturn can return its value while the yield is {st_ or ['?']}")
        if st_ == ["Pending"]:
            R.check(res(p) == "Pending", "ytr/pending-when-yield-pending", b, "", "YieldThenReturn completes while its yield is still pending")
    # then_yield = then(YieldThenReturn::new)
    ty = [b2 for b2 in F.crate_bodies() if b2.impl and b2.impl.get("provided") and b2.impl["trait"] == "future::FutureExt"]
    ok = False
    if len(ty) == 1:
        for _, t in ty[0].calls(lambda t: callee_is(t, r"FutureExt::then$")):
            sl = A.slice_back(ty[0], t["args"][1:])
            for f in sl.fns:
                fb = F.body(f["path"]) if f.get("local") else None
                if fb is not None and any(st["rv"].get("adt") == "future::YieldThenReturn" for _, st in fb.assigns(lambda st: st["rv"]["k"] == "agg")):
                    ok = True
    R.check(ok, "then-yield-shape", ty[0] if ty else None,
            "then_yield(self) = self.then(<constructor of YieldThenReturn>)", "then_yield no longer chains a YieldThenReturn constructor")
    # biased select polls `a` (first constructor argument) before `b`
    b = sel[0]
    pus = [(s, t) for s, t in b.calls(lambda t: callee_is(t, r"poll_unpin$", r"Future::poll$"))]
    R.check(len(pus) == 2, "select/two-polls", b, "", f"{len(pus)} polls in SelectWithBiasedFirst::poll")
    if len(pus) == 2:
        (s1, t1), (s2, t2) = sorted(pus, key=lambda x: x[0].bb)
        first = s1 if b.dominates(s1, s2) else (s2 if b.dominates(s2, s1) else None)
        if first is None:
            R.violation("select/order", b, "neither poll dominates the other")
        else:
            t_first = t1 if first is s1 else t2
            selfty = (op_fn(t_first["func"]) or {}).get("self", "")
            R.check(selfty == "A", "select/biased-first", first, "the biased (first) future is polled first",
                    f"SelectWithBiasedFirst polls `{selfty}` first; the biased future must be polled before the regular one")
    R.floor(9)


def r7(F, R):
    """"The run always terminates ... the event stream ends": a panic of user code must not unwind through the scheduler (it would end
    the stream without run-Finished and drop every other scenario) — every call of a step fn / hook / World::new lies inside the
    future guarded by catch_unwind (C10.R1's wrap rule)."""
    from . import c10
    c10.r1(F, R)


def r8(F, R):
    """With the tracing integration the attempt waits for its spans to close: the collector must mark a closed span also when a waiter
    subscribed first (C20.R6), else the wait never resolves and the run never ends."""
    if not any((b.impl or {}).get("self_adt") == "tracing::Collector" for b in F.crate_bodies()):
        R.ok("close-marks-entry", None, "no tracing collector in this configuration")
        return
    from . import c20
    c20.span_close_bookkeeping(F, R)


def r9_clone(F, R):
    """The runner value and its queue handle are cloned when the run starts (`Basic` is `Clone`, `Features` is shared through its clones): every field of a clone comes from the same field."""
    n = roles.check_clone_faithful_table(F, R, r"^runner::basic::(Basic|Features|Cli)$|^future::", "clone-faithful")
    R.floor(3)


def r10(F, R):
    """Every scenario runs and the run ends: the scheduler's bracket bookkeeping is keyed by `Source` *identity* — with value equality two
    equal-looking features (the same file given twice, two path-less features with the same text) share one entry, the entry is removed when
    the first finishes, and the second's completion panics inside `execute` (`no Feature: ..`), abandoning everything queued (= C03.R6)."""
    from . import c03
    c03.r6(F, R)


def r11(F, R):
    """"every scenario handed to the runner is attempted" seen from `Cucumber::run`: the runner receives exactly the filtered parser
    stream — no further adaptor that could drop features or scenarios sits between the filter and the runner (= C15.R3)."""
    from . import c15
    c15.r3(F, R)


WALK_RESTRICT = r"globwalk::GlobWalkerBuilder::(file_type|max_depth|min_depth)$"
DROPPING = r"Iterator::(filter|take|skip|step_by|take_while|skip_while)$|Itertools::(dedup\w*|unique\w*|take_while_ref|step|while_some)$"


def r12(F, R):
    """The default parser's side of "every scenario runs": walking a features directory, `parser::Basic` restricts the walk to nothing but
    the `*.feature` pattern (no file-type / depth limits: a symlinked or deeply nested feature file silently never runs), and every
    entry of the walk is parsed — no dropping adaptor (filter / take / skip / dedup ..) in the parser's pipelines.  (Beyond the runner,
    which is what the statement names: it is the other place where scenarios get lost without any event.)"""
    pb = [b for b in F.crate_bodies() if b.name.startswith("<parser::basic::Basic as parser::Parser") or b.name.startswith("parser::basic::Basic::")]
    if not pb:
        raise Unverifiable("parser::Basic::parse not found")
    builders = [(b, st, t) for b in pb for st, t in b.calls(lambda t: callee_is(t, r"globwalk::GlobWalkerBuilder::\w+$"))]
    if not any(callee_is(t, r"GlobWalkerBuilder::(new|from_patterns)$") for _, _, t in builders):
        raise Unverifiable("parser::Basic no longer builds its directory walk with GlobWalkerBuilder")
    bad = [(b, st, t) for b, st, t in builders if callee_is(t, WALK_RESTRICT)]
    for b, st, t in bad:
        R.violation("feature-walk/unrestricted", st, f"the walk over the features directory is restricted by `{(callee_path(t) or '').rsplit('::', 1)[-1]}`: feature files "
                    f"matching `*.feature` (symlinked ones: their type is SYMLINK, links are not followed; or nested deeper) are silently skipped, their scenarios never run")
    if not bad:
        R.ok("feature-walk/unrestricted", builders[0][1], f"{len(builders)} builder calls, none restricts file type or depth")
    drops = [(b, st, t) for b in pb for st, t in b.calls(lambda t: callee_is(t, DROPPING))]
    for b, st, t in drops:
        R.violation("feature-walk/every-entry-parsed", st, f"`{re.sub(r'<.*?>', '', callee_path(t) or '').rsplit('::', 2)[-1]}` in parser::Basic's pipeline drops entries: some feature files / features never reach the runner")
    if not drops:
        R.ok("feature-walk/every-entry-parsed", pb[0], "no dropping adaptor in parser::Basic's pipelines")
    # the walked entries that are dropped on purpose: only unreadable directory entries (`filter_map(Result::ok)`)
    fms = [(b, st, t) for b in pb for st, t in b.calls(lambda t: callee_is(t, r"Iterator::filter_map$"))]
    okf = all((op_fn(t["args"][1]) or {}).get("path", "").endswith("Result::ok") or re.search(r"Result::<.*>::ok$", (op_fn(t["args"][1]) or {}).get("full", "") or "") for _, _, t in fms)
    R.check(okf, "feature-walk/only-unreadable-entries-skipped", fms[0][1] if fms else pb[0], "filter_map(Result::ok) only", "a filter_map in parser::Basic drops entries by another criterion than `Result::ok`")
    R.floor(3)


RULES = [
    ("R1", r1, None),
    ("R2", r2, None),
    ("R3", r3, None),
    ("R4", r4, None),
    ("R5", r5, None),
    ("R6", r6, None),
    ("R7", r7, None),
    ("R8", r8, None),
 ("R9", r9_clone, None), ("R10", r10, None), ("R11", r11, None), ("R12", r12, None)]
