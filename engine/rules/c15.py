"""C15 — filtering by name, tags or closure runs exactly the matching scenarios (DESIGN §4 C15)."""
import re

from . import analysis as A
from . import roles
from . import tags
from .mir import Site, Unverifiable, callee_is, callee_path, const_int, const_str, op_fn, op_local, op_place, place_fields, place_str

CFGS = {"quick": ["default", "all"], "thorough": ["default", "all", "nodefault"]}

EXPLANATION = """
(R1) precedence tree of the composed filter: Regex::is_match runs only in the Some-handler of `re_filter` and on
Scenario.name; TagOperation::eval only when `re_filter` is None and `tags_filter` is Some, over the unconditional
union of feature, rule and scenario tags; the user closure only when both are None; (R2) evaluator table of
TagOperation::eval: And -> `&` of two recursive evaluations, Or -> `|`, Not -> `!`, Tag -> any(==), both operands
evaluated on the same tags; (R3) who-writes: the mapping closure of filter_run assigns exactly Feature.scenarios,
Rule.scenarios and Feature.rules; the scenarios fields are rebuilt as into_iter().filter(pred).collect() of their
own taken value (no other adaptor, so order is kept and nothing else is dropped), the predicate is the composed
filter called with the rule exactly for rule-level scenarios, Feature.rules gets the taken vector back, parser
errors pass through untouched; (R3b) the stream given to Runner::run is exactly parser output mapped by that
closure; (R4) `--tags` conflicts with `--name` in the clap definition.
Not decided: regex semantics, tag-expression parsing.
Added after the second seeded round: (R5) the filters given through with_cli() survive every later Cucumber builder call and clone(): path tables of the builder methods (cli = self.cli, or set from a parameter, or reset only where parser / runner / writer is replaced by a parameter) and of Cucumber::clone.
"""
DECLINED = ["regex matching semantics", "parsing of tag expressions (gherkin crate)"]
ASSUMPTIONS = ["Iterator::filter(..).collect::<Vec<_>>() keeps the relative order of retained items"]

LOSSY = {"skip", "take", "step_by", "rev", "skip_while", "take_while", "filter_map", "dedup", "nth", "last", "sorted", "sorted_by", "unique", "chain", "zip",
         "map", "flat_map", "cycle", "peekable", "scan"}


def filter_run_co(F):
    cands = [b for b in F.crate_bodies() if b.is_coroutine and b.name.startswith("cucumber::Cucumber") and
             any(callee_is(t, r"runner::Runner::run$") or (op_fn(t["func"]) or {}).get("trait") == "runner::Runner" for _, t in b.calls())]
    if len(cands) != 1:
        raise Unverifiable(f"FILTER_RUN role: {len(cands)}")
    return cands[0]


def _opts_field(F, body, op_or_place, is_place=False):
    ds = A.deep_slice(F, body, [] if is_place else [op_or_place], []) if not is_place else A.deep_slice(F, body, [{"k": "copy", "pl": op_or_place}])
    fld = sorted({n for o, n in ds.fields if o == "cli::Opts"})
    return fld[0] if len(fld) == 1 else None


def handler_chain(F, body, top, site=None):
    """Conditions on the CLI options under which `site` (in closure `body`, nested in `top`) runs: list of
    (cli::Opts field, 'Some'|'None').  Both spellings are understood: Option combinators (`map_or_else`, `map`,
    `unwrap_or_else` …: which handler the closure is) and `if let` / `match` (discriminant guards)."""
    chain = []
    b, cur_site = body, site
    guard = 0
    while guard < 8:
        guard += 1
        # if-let / match style guards at this level
        if cur_site is not None:
            for g in A.guards_of(b, cur_site):
                d = g.cond_def()
                if d and d[0] == "discr" and d[2] == "std::option::Option":
                    fld = _opts_field(F, b, d[1], is_place=True)
                    vs = g.variants()
                    if fld and vs in ({"Some"}, {"None"}):
                        chain.append((fld, vs.pop()))
        if b is top:
            break
        cc = A.closure_creation(F, b)
        if cc is None:
            break
        P, cs, st = cc
        uses, _ = A.forward_uses(P, st["pl"]["l"])
        for s, t, idx in uses:
            kind = None
            if callee_is(t, r"Option::<.*>::map_or_else$"):
                kind = "None" if idx == 1 else "Some"
            elif callee_is(t, r"Option::<.*>::(map|map_or|and_then|is_some_and|filter)$"):
                kind = "Some"
            elif callee_is(t, r"Option::<.*>::(unwrap_or_else|or_else)$"):
                kind = "None"
            if kind:
                fld = _opts_field(F, P, t["args"][0])
                chain.append((fld or "?", kind))
        b, cur_site = P, cs
    return chain


def filter_predicate(F, co):
    """The composed scenario filter: the body holding the `--name` match — the closure of filter_run it is (nested) in, or the private
    fn / method that was extracted for it."""
    isms = [b for b in F.crate_bodies() if b.name.startswith("cucumber::") and any(True for _ in b.calls(lambda t: callee_is(t, r"Regex::is_match$")))]
    if len(isms) != 1:
        raise Unverifiable(f"composed scenario filter (the body matching --name): {len(isms)}")
    P = isms[0]
    while F.parent_body(P) is not None and F.parent_body(P) is not co:
        P = F.parent_body(P)
    return P


def r1(F, R):
    """Precedence of the three filter sources, on the deep path table of the composed filter (whatever its spelling: nested
    `map_or_else`, `if let` chains, a `match` on a tuple, a private struct with a method): asked first is the `Option<Regex>` (--name): Some =>
    the answer is `is_match(scenario.name)` and nothing else is consulted; None and `Option<TagOperation>` (--tags) Some => the answer is the
    tag evaluation; both None => the answer is the user's closure called with the predicate's own (feature, rule, scenario)."""
    from . import deep as D
    from .termtypes import Typer
    co = filter_run_co(F)
    P = filter_predicate(F, co)
    dp = D.Deep(F, P, max_paths=400)
    rows = dp.run()
    if not rows or any(p.cut for p in rows):
        raise Unverifiable("composed scenario filter: empty path table or a loop")
    T = Typer(F, P, dp)
    base = P.arg_count - 3   # (feature, rule, scenario) are the last three parameters
    if base < 0:
        raise Unverifiable("composed scenario filter takes fewer than three parameters")
    seen = set()
    ism = ev = usr = None
    for p in rows:
        st = {}
        for a, o in p.conds:
            if a[0] == "discr" and isinstance(o, str):
                ty = re.sub(r"^&(mut )?", "", T.ty(a[1]) or "")
                if ty == "std::option::Option<regex::Regex>":
                    st.setdefault("name", o)
                elif ty == "std::option::Option<gherkin::tagexpr::TagOperation>":
                    st.setdefault("tags", o)
        calls = [e for e in p.effects if e[0] == "call"]
        c_ism = [e for e in calls if re.search(r"Regex::is_match$", e[1])]
        c_ev = [e for e in calls if re.search(r"tag::Ext>?::eval$", e[1])]
        c_usr = [e for e in calls if e[1] == "<indirect>" and re.sub(r"^&(mut )?", "", T.ty(e[2][0]) or "") in ("F", "Filter") or
                 (e[1] == "<indirect>" and not D.mentions(e[2][0], lambda x: x[0] == "closure"))]
        is_ret = lambda e: isinstance(p.ret, tuple) and len(p.ret) == 4 and p.ret[0] == "call" and p.ret[3] == e[4]
        n, t = st.get("name"), st.get("tags")
        conds = " ∧ ".join(f"{D.fmt(P, a)[:40]}={o}" for a, o in p.conds) or "always"
        if n == "Some":
            seen.add("name")
            ok = len(c_ism) == 1 and not c_ev and not c_usr and is_ret(c_ism[0])
            R.check(ok, "name-filter-first", P, "--name given => is_match decides alone", f"[{conds}] with a --name filter the answer is not (only) Regex::is_match")
        elif n == "None" and t == "Some":
            seen.add("tags")
            ok = len(c_ev) == 1 and not c_ism and not c_usr and is_ret(c_ev[0])
            R.check(ok, "tags-only-without-name", P, "no --name, --tags given => tag evaluation decides alone", f"[{conds}] with --tags (and no --name) the answer is not (only) the tag evaluation")
        elif n == "None" and t == "None":
            seen.add("closure")
            ok = len(c_usr) == 1 and not c_ism and not c_ev and is_ret(c_usr[0])
            if ok:
                args = c_usr[0][2][1:]
                if len(args) == 1 and args[0][0] == "tuple":
                    args = args[0][1]
                ok = len(args) == 3 and all(D.mentions(args[i], lambda x, i=i: x == ("arg", base + 1 + i)) for i in range(3))
            R.check(ok, "closure-only-without-cli-filters", P, "neither => the user's closure decides, called with (feature, rule, scenario)",
                    f"[{conds}] without CLI filters the answer is not the user's closure called with the predicate's own (feature, rule, scenario)")
        else:
            R.violation("three-sources", P, f"[{conds}] the composed filter answers without having asked the --name filter first (and --tags second)")
    R.check(seen == {"name", "tags", "closure"}, "three-sources", P, "--name, --tags, closure", f"the composed filter only knows the cases {sorted(seen)}")
    if seen != {"name", "tags", "closure"}:
        return
    ism = [(b, s, t) for b in F.nested(P) for s, t in b.calls(lambda t: callee_is(t, r"Regex::is_match$"))]
    ev = [(b, s, t) for b in F.nested(P) for s, t in b.calls(lambda t: callee_is(t, r"tag::Ext::eval$"))]
    if len(ism) != 1 or len(ev) != 1:
        raise Unverifiable(f"composed scenario filter: is_match x{len(ism)}, eval x{len(ev)}")
    # haystack is the scenario name
    hs = A.deep_slice(F, ism[0][0], [ism[0][2]["args"][1]])
    R.check(("gherkin::Scenario", "name") in hs.fields and not [f for f in hs.fields if f[0].startswith("gherkin::") and f != ("gherkin::Scenario", "name")], "name-regex-on-scenario-name", ism[0][1],
            "is_match(&scenario.name)", f"the name regex is matched against {sorted(f for f in hs.fields if f[0].startswith('gherkin::'))}")
    # tags union
    tags.check_tag_union(F, R, ev[0][0], ev[0][2]["args"][1], "tag-filter-tags", ev[0][1], "filter tag")
    # the user closure receives feature, rule, scenario unchanged
    R.floor(6)


def r2(F, R):
    """TagOperation::eval's operator table, on its deep path table (deep.py; the recursive calls stay opaque):
    And -> l.eval(tags) & r.eval(tags), Or -> |, Not -> !inner.eval(tags), Tag -> some tag equals the name."""
    from . import deep as D
    evs = [b for b in F.crate_bodies() if (b.impl or {}).get("trait") == "tag::Ext" and (b.impl or {}).get("self_adt") == "gherkin::tagexpr::TagOperation"]
    if len(evs) != 1:
        raise Unverifiable("TagOperation::eval impl")
    b = evs[0]
    dp = D.Deep(F, b, max_paths=400)
    rows = dp.run()
    me = ("deref", ("arg", 1))
    tags_t = ("arg", 2)
    by = {}
    for p in rows:
        v = [o for a, o in p.conds if a == ("discr", me)]
        by.setdefault(v[0] if v else "?", []).append(p)
    is_rec = lambda x: isinstance(x, tuple) and x and x[0] == "call" and re.search(r"tag::Ext>?::eval$", x[1])

    def rec_ok(x, var, idx):
        """x = eval(<operand idx of self as var>, tags)"""
        return is_rec(x) and len(x[2]) == 2 and D.mentions(x[2][0], lambda y: y == ("field", ("as", me, var), idx)) and x[2][1] == tags_t
    def operand_of(x, var):
        return "L" if rec_ok(x, var, 0) else "R" if rec_ok(x, var, 1) else None

    def value(t, var, env):
        """Value of term t under the assignment env = {"L": bool, "R": bool}; None if it cannot be evaluated."""
        if t == ("const", True) or t == ("const", False):
            return t[1]
        o = operand_of(t, var)
        if o is not None:
            return env[o]
        if isinstance(t, tuple) and t and t[0] == "bin" and t[1] in ("BitAnd", "BitOr"):
            a, c = value(t[2], var, env), value(t[3], var, env)
            if a is None or c is None:
                return None
            return (a and c) if t[1] == "BitAnd" else (a or c)
        if isinstance(t, tuple) and t and t[0] == "un" and t[1] == "Not":
            a = value(t[2], var, env)
            return None if a is None else (not a)
        return None
    for var, op in (("And", "BitAnd"), ("Or", "BitOr")):
        # truth table over the two recursive results L = self.0.eval(tags), R = self.1.eval(tags) — whatever the spelling
        # (`l & r`, `l && r`, both computed first and then combined): on every row, for every assignment of L / R consistent with
        # what the row learned, the returned value is L op R; every assignment is covered by some row
        ps = by.get(var, [])
        ok, why, covered = bool(ps), "", set()
        for p in ps:
            if p.cut:
                ok, why = False, "a loop"
                break
            learned = {}
            for a, o in p.conds:
                w = operand_of(a, var)
                if w is not None and isinstance(o, bool):
                    learned[w] = o
            for l_ in (True, False):
                for r_ in (True, False):
                    if learned.get("L", l_) != l_ or learned.get("R", r_) != r_:
                        continue
                    got = value(p.ret, var, {"L": l_, "R": r_})
                    want = (l_ and r_) if var == "And" else (l_ or r_)
                    if got is None:
                        ok, why = False, f"it returns {D.fmt(b, p.ret)[:100]}"
                    elif got != want:
                        ok, why = False, f"with left = {l_}, right = {r_} it yields {got}"
                    covered.add((l_, r_))
        if ok and len(covered) != 4:
            ok, why = False, f"only the cases {sorted(covered)} are handled"
        # both operands are evaluated over the very tags given (an operand evaluated over something else is not recognised above)
        seen_ops = {operand_of(x, var) for p in ps for t in ([p.ret] + [a for a, _ in p.conds] + [("call", e[1], e[2], e[4]) for e in p.effects if e[0] == "call"]) for x in D.subterms(t)} - {None}
        any_rec = [x for p in ps for t in ([p.ret] + [a for a, _ in p.conds] + [("call", e[1], e[2], e[4]) for e in p.effects if e[0] == "call"]) for x in D.subterms(t) if is_rec(x)]
        same = seen_ops == {"L", "R"} and all(operand_of(x, var) is not None for x in any_rec)
        R.check(ok, f"eval/{var}", b, f"{var}: l.eval(tags) {op} r.eval(tags)", f"TagOperation::{var} is not `left {'and' if var == 'And' else 'or'} right`: {why}")
        R.check(same, f"eval/{var}-same-tags", b, "both operands over the same tags", f"{var}: operands are not evaluated over the same tags")
    ps = by.get("Not", [])
    okn = len(ps) == 1 and not ps[0].cut and ps[0].ret[0] == "un" and ps[0].ret[1] == "Not" and rec_ok(ps[0].ret[2], "Not", 0)
    R.check(okn, "eval/Not", b, "Not: !inner.eval(tags)", f"TagOperation::Not is evaluated as {D.fmt(b, ps[0].ret)[:120] if ps else 'nothing'}")
    # Tag: true iff some tag equals the name
    ps = by.get("Tag", [])
    name_t = ("field", ("as", me, "Tag"), 0)
    is_eq = lambda x: isinstance(x, tuple) and x and x[0] == "call" and re.search(r"::eq$", x[1])
    okt, n_eq, why = bool(ps), 0, ""
    if len(ps) == 1 and not ps[0].cut and ps[0].ret[0] == "call" and re.search(r"Iterator::any$", ps[0].ret[1]):
        # `tags.into_iter().any(|t| t.as_ref() == name)`: the closure's table
        clo = [x for x in ps[0].ret[2] if isinstance(x, tuple) and x and x[0] == "closure"]
        okt = D.mentions(ps[0].ret[2][0], lambda y: y == tags_t) and len(clo) == 1
        if okt:
            kb = F.body(clo[0][1], b.crate)
            krows = D.Deep(F, kb, max_paths=50).run() if kb is not None else []
            okt = len(krows) == 1 and is_eq(krows[0].ret) and D.mentions(krows[0].ret, lambda y: y == ("arg", 2) or y == ("L", 0, 2)) and \
                D.mentions(krows[0].ret, lambda y: y[0] == "field" and y[1] in (("arg", 1), ("deref", ("arg", 1))))
            n_eq = 1 if okt else 0
            why = "" if okt else "the predicate of `any` is not an equality with the tag"
    else:
        # explicit loop: true only after an equality held, false only when the tags are exhausted, else go on
        for p in ps:
            eqs = [(a, o) for a, o in p.conds if is_eq(a) and D.mentions(a, lambda y: y == name_t or y == ("refto", name_t))]
            nxt = [o for a, o in p.conds if a[0] == "discr" and a[1][0] == "call" and re.search(r"Iterator::next$", a[1][1])]
            if p.cut or (isinstance(p.ret, tuple) and p.ret and p.ret[0] == "loop"):      # (the loop may live in a private helper that was inlined)
                okt = okt and bool(eqs) and eqs[-1][1] is False
            elif p.ret == ("const", True):
                n_eq += 1
                okt = okt and bool(eqs) and eqs[-1][1] is True
            elif p.ret == ("const", False):
                okt = okt and nxt[-1:] == ["None"]
            else:
                okt = False
        why = "" if okt else "the loop does not return true exactly when a tag equals the name"
    R.check(okt, "eval/Tag", b, "Tag: any tag == name", f"TagOperation::Tag is not `some tag equals the name` ({why})")
    R.check(n_eq >= 1, "eval/Tag-equality", b, "tag.as_ref() == t", f"{n_eq} equality comparisons decide the Tag arm")
    R.check(set(by) == {"And", "Or", "Not", "Tag"}, "eval/arms", b, "", f"arms: {sorted(by)}")
    R.floor(8)


def r3(F, R):
    co = filter_run_co(F)
    # the mapping closure: passed to StreamExt::map on the parser output
    maps = [(s, t) for s, t in co.calls(lambda t: callee_is(t, r"StreamExt::map$"))]
    parse = [(s, t) for s, t in co.calls(lambda t: (op_fn(t["func"]) or {}).get("trait") == "parser::Parser")]
    run = [(s, t) for s, t in co.calls(lambda t: (op_fn(t["func"]) or {}).get("trait") == "runner::Runner")]
    if len(parse) != 1 or len(run) != 1:
        raise Unverifiable(f"Parser::parse x{len(parse)}, Runner::run x{len(run)}")
    mp = [(s, t) for s, t in maps if parse[0][0] in A.slice_back(co, [t["args"][0]], stop_calls=[r"Future::poll$"]).sites]
    R.check(len(mp) == 1, "mapping-call", co, "", f"{len(mp)} StreamExt::map calls on the parser output")
    if len(mp) != 1:
        return
    s_m, t_m = mp[0]
    # R3b hand-over: Runner::run's stream is exactly that map result
    rl = op_local(run[0][1]["args"][1])
    direct = rl is not None and A.canon_place(co, {"l": rl, "p": []})["l"] == t_m["dest"]["l"]
    R.check(direct, "hand-over", run[0][0], "runner.run(features.map(filter), ..)", "the runner does not receive exactly the filtered stream (an unfiltered path exists or another adaptor sits in between)")
    kb = A.closure_of_operand(F, co, t_m["args"][1])
    if kb is None:
        raise Unverifiable("mapping closure")
    nested = roles.family(F, kb)   # the mapping closure, its closures, and private helper fns it hands the feature to
    # writes to gherkin fields
    writes = set()
    for nb in nested:
        for s, st in nb.assigns():
            if st["pl"]["p"]:
                fs = place_fields(A.canon_place(nb, st["pl"]))
                g = [(o, n) for o, n in fs if o.startswith("gherkin::")]
                if g:
                    writes.add(g[-1])
    takes = []
    for nb in nested:
        for s, t in nb.calls(lambda t: callee_is(t, r"mem::take$", r"mem::replace$", r"mem::swap$")):
            sl = A.slice_back(nb, [t["args"][0]], stop_calls=[r"Future::poll$"])
            for o, n in sl.fields:
                if o.startswith("gherkin::"):
                    takes.append((o, n))
    want = {("gherkin::Feature", "scenarios"), ("gherkin::Rule", "scenarios"), ("gherkin::Feature", "rules")}
    R.check(writes == want, "writes-only-scenario-lists", kb, f"assigns {sorted(n for _, n in writes)}", f"the filter assigns {sorted(writes)}; expected exactly {sorted(want)}")
    R.check(set(takes) <= want, "takes-only-scenario-lists", kb, "", f"the filter takes {sorted(set(takes))} out of the feature")
    # each scenarios assignment = into_iter().filter(pred).collect() of its own taken value
    for owner in ("gherkin::Feature", "gherkin::Rule"):
        for nb in nested:
            for s, st in nb.assigns(lambda st: st["pl"]["p"] and place_fields(st["pl"]) and place_fields(A.canon_place(nb, st["pl"]))[-1:] == [(owner, "scenarios")]):
                chain = A.receiver_chain(nb, A.rvalue_operands(st["rv"])[0]) if A.rvalue_operands(st["rv"]) else []
                ad = [callee_path(t).rsplit("::", 1)[-1] for _, t in chain if (op_fn(t["func"]) or {}).get("trait", "").endswith(("Iterator", "IntoIterator", "Itertools"))]
                tk = [t for _, t in chain if callee_is(t, r"mem::take$")]
                own = False
                for t in tk:
                    tsl = A.slice_back(nb, [t["args"][0]], stop_calls=[r"Future::poll$"])
                    own = own or (owner, "scenarios") in tsl.fields
                ok = sorted(ad) == ["collect", "filter", "into_iter"] and own
                loop = None
                if not ok and A.rvalue_operands(st["rv"]):
                    # the explicit-loop spelling of into_iter().filter(pred).collect()
                    loop = A.loop_filter_idiom(F, nb, A.rvalue_operands(st["rv"])[0])
                    if loop is not None:
                        ssl = A.slice_back(nb, [loop["source"]], stop_calls=[r"Future::poll$"])
                        own = any(callee_is(t2, r"mem::take$") and (owner, "scenarios") in A.slice_back(nb, [t2["args"][0]], stop_calls=[r"Future::poll$"]).fields for _, t2 in ssl.calls)
                        ok = own
                        ad = ["for", "if pred", "push"]
                inst = f"rebuild/{owner.split('::')[1]}.scenarios"
                R.check(ok, inst, s, "= taken.into_iter().filter(pred).collect()", f"{owner}.scenarios is rebuilt through {sorted(ad)} (own taken value: {own})")
                # predicate calls the composed filter with rule Some/None
                fl = [t for _, t in chain if callee_is(t, r"Iterator::filter$")]
                if fl or loop is not None:
                    if loop is not None:
                        pk = nb
                        calls = [loop["pred"]] if re.search(r"ops::Fn", (op_fn(loop["pred"][1]["func"]) or {}).get("trait", "")) else []
                    else:
                        pk = A.closure_of_operand(F, nb, fl[0]["args"][1])
                        P = filter_predicate(F, co)
                        calls = [(s2, t2) for s2, t2 in pk.calls(lambda t2: re.search(r"ops::Fn", (op_fn(t2["func"]) or {}).get("trait", "")) or F.callee_body(t2, pk.crate) is P)] if pk else []
                    okp = False
                    if len(calls) == 1:
                        t2 = calls[0][1]
                        if re.search(r"ops::Fn", (op_fn(t2["func"]) or {}).get("trait", "")):
                            tup = op_local(t2["args"][1])
                            sd = pk.single_def(tup) if tup is not None else None
                            cand_ops = sd[2]["rv"]["ops"] if sd and sd[1] == "assign" and sd[2]["rv"]["k"] == "agg" else []
                        else:
                            cand_ops = t2["args"]   # the composed filter as a private fn / method: called directly
                        rule_ops = [o for o in cand_ops if op_local(o) is not None and pk.locals[op_local(o)].startswith("std::option::Option<&gherkin::Rule>")]
                        if len(rule_ops) == 1:
                            rsd = pk.single_def(op_local(rule_ops[0]))
                            var = rsd[2]["rv"].get("variant") if rsd and rsd[1] == "assign" and rsd[2]["rv"]["k"] == "agg" else None
                            okp = var == ("Some" if owner == "gherkin::Rule" else "None")
                    R.check(okp, f"predicate-rule-arg/{owner.split('::')[1]}", s, f"filter(&feature, {'Some(rule)' if owner == 'gherkin::Rule' else 'None'}, s)",
                            f"the {owner.split('::')[1].lower()}-level scenarios are filtered with the wrong `rule` argument")
    # Feature.rules gets the taken vector back
    for nb in nested:
        for s, st in nb.assigns(lambda st: st["pl"]["p"] and place_fields(A.canon_place(nb, st["pl"]))[-1:] == [("gherkin::Feature", "rules")]):
            src = op_place(st["rv"]["op"]) if st["rv"]["k"] == "use" else None
            ok = False
            if src is not None:
                cp = A.canon_place(nb, src)
                sd = nb.single_def(cp["l"])
                ok = bool(sd and sd[1] == "call" and callee_is(sd[2], r"mem::take$") and ("gherkin::Feature", "rules") in A.slice_back(nb, [sd[2]["args"][0]], stop_calls=[r"Future::poll$"]).fields)
            R.check(ok, "rules-put-back", s, "feature.rules = <the taken rules>", "Feature.rules is not restored from the taken vector (rules could be lost or reordered)")
    # errors pass through: `?` on the item
    R.floor(8)


def r4(F, R):
    aug = [b for b in F.crate_bodies() if (b.impl or {}).get("trait") == "clap::Args" and (b.impl or {}).get("self_adt") == "cli::Opts" and b.name.endswith("::augment_args")]
    if len(aug) != 1:
        raise Unverifiable("clap::Args::augment_args for cli::Opts")
    b = aug[0]
    cw = [(s, t) for s, t in b.calls(lambda t: callee_is(t, r"clap::Arg::conflicts_with$", r"Arg::conflicts_with(_all)?$"))]
    ok = False
    for s, t in cw:
        if const_str(t["args"][1]) == "name":
            sl = A.slice_back(b, [t["args"][0]])
            ids = [const_str(a) for _, ct in sl.calls if callee_is(ct, r"clap::Arg::new$") for a in ct["args"] if const_str(a)]
            ok = ids == ["tags"]
    R.check(ok, "tags-conflicts-with-name", b, '--tags conflicts_with "name"', "the CLI no longer rejects --tags together with --name")
    R.floor(1)


def r5(F, R):
    """The active filter is the one the user gave: `--name` / `--tags` supplied through `with_cli()` survive every later builder call
    and `clone()` (path tables of the Cucumber builder methods and of its Clone impl)."""
    n = roles.check_builders_keep_cli(F, R)
    roles.check_clone_faithful_table(F, R, "cucumber::Cucumber", "clone-faithful")
    R.floor(20)


def r6_clone(F, R):
    """CLI options are cloned on their way from `with_cli` / parsing to the filter: a clone keeps every option."""
    n = roles.check_clone_faithful_table(F, R, r"^cli::", "clone-faithful")
    R.floor(2)


def r7_cli(F, R):
    """`--name` fills the name regex and `--tags` the tag expression of `cli::Opts` (clap derive expansion): the two filters are not swapped or renamed."""
    roles.check_cli_surface(F, R, "cli::Opts")
    R.floor(2)

def r8_entry(F, R):
    """`run` / `run_and_exit` are the filtering entry points with a filter accepting every scenario (= C01.R11): without `--name` / `--tags` nothing is filtered out."""
    if "cucumber" not in F.crates:
        return
    from . import c01
    c01.r11(F, R)


RULES = [("R1", r1, None), ("R2", r2, None), ("R3", r3, None), ("R4", r4, None), ("R5", r5, None), ("R6", r6_clone, None), ("R7", r7_cli, None), ("R8", r8_entry, ["default", "all"])]
