"""Loading of mirfacts JSON and the generic program analyses (G1..G10 of DESIGN.md §2.2).

Everything here is a pure function of the facts; nothing runs or interprets cucumber code.
"""
import json
import os
import re
import sys
from collections import defaultdict, deque
from functools import lru_cache

sys.setrecursionlimit(10000)


# --------------------------------------------------------------------------------------------------
# places / operands
# --------------------------------------------------------------------------------------------------

def place_str(pl):
    """Canonical, line-free text of a place: `_3.*.scenarios{Feature}`."""
    s = f"_{pl['l']}"
    for e in pl["p"]:
        if e == "*":
            s += ".*"
        elif isinstance(e, dict):
            if "f" in e:
                s += f".{e['n']}"
            elif "v" in e:
                s += f"@{e['v']}"
            elif "idx" in e:
                s += "[_]"
            elif "cidx" in e:
                s += f"[{e['cidx']}]"
        else:
            s += ".?"
    return s


def place_fields(pl):
    """List of (owner, field-name) of every field projection of the place."""
    return [(e["o"], e["n"]) for e in pl["p"] if isinstance(e, dict) and "f" in e]


def place_last_field(pl):
    fs = place_fields(pl)
    return fs[-1] if fs else None


def op_place(op):
    return op.get("pl") if op and op.get("k") in ("copy", "move") else None


def op_local(op):
    """Local index if the operand is exactly a local (no projection)."""
    pl = op_place(op)
    if pl is not None and not pl["p"]:
        return pl["l"]
    return None


def op_const(op):
    return op if op and op.get("k") == "const" else None


def op_fn(op):
    return op if op and op.get("k") == "fn" else None


def const_int(op):
    c = op_const(op)
    if c is None or c["val"] == "":
        return None
    try:
        return int(c["val"])
    except ValueError:
        return None


def const_str(op):
    """String literal value of a `&str` constant operand."""
    c = op_const(op)
    if c is None:
        return None
    m = re.match(r'^(?:const )?"(.*)"$', c["text"], re.S)
    if m:
        return m.group(1)
    return None


class Site:
    """A program point: body def path, block index, statement index (or 'T' for the terminator)."""
    __slots__ = ("body", "bb", "idx")

    def __init__(self, body, bb, idx):
        self.body, self.bb, self.idx = body, bb, idx

    def __repr__(self):
        return f"{self.body.short}:bb{self.bb}[{self.idx}]"

    def key(self):
        return (self.body.name, self.bb, self.idx)

    def __eq__(self, o):
        return isinstance(o, Site) and self.key() == o.key()

    def __hash__(self):
        return hash(self.key())

    @property
    def span(self):
        blk = self.body.blocks[self.bb]
        if self.idx == "T":
            return blk["term"].get("sp", "")
        return blk["stmts"][self.idx].get("sp", "")

    @property
    def loc(self):
        return fmt_span(self.span)

    def order(self):
        return 10 ** 9 if self.idx == "T" else self.idx


def fmt_span(sp):
    """`src/x.rs:10:5-12:3!` -> `src/x.rs:10`"""
    if not sp:
        return "?"
    m = re.match(r"^(.*?):(\d+):\d+-", sp)
    if m:
        return f"{m.group(1)}:{m.group(2)}"
    return sp


def span_lines(sp):
    m = re.match(r"^(.*?):(\d+):(\d+)-(\d+):(\d+)(!?)$", sp or "")
    if not m:
        return None
    return m.group(1), int(m.group(2)), int(m.group(4)), bool(m.group(6))


# --------------------------------------------------------------------------------------------------
# bodies
# --------------------------------------------------------------------------------------------------

class Body:
    def __init__(self, raw, crate):
        self.raw = raw
        self.crate = crate
        self.name = raw["def"]
        self.kind = raw["kind"]
        self.span = raw["span"]
        self.is_coroutine = raw["coroutine"]
        self.cor_kind = raw.get("cor_kind", "")
        self.parent = raw.get("parent", "")
        self.impl = raw.get("impl")
        self.vis = raw.get("vis", "")
        self.locals = raw["locals"]
        self.arg_count = raw["arg_count"]
        self.blocks = raw["blocks"]
        self.debug = raw["debug"]
        self._succ = None
        self._pred = None
        self._defs = None
        self._dom = None
        self._reach_cache = {}

    @property
    def short(self):
        s = self.name
        s = re.sub(r"::<[^<>]*(<[^<>]*(<[^<>]*>[^<>]*)*>[^<>]*)*>", "", s)
        return s

    def __repr__(self):
        return f"<Body {self.name}>"

    # ---- G1: normal CFG ------------------------------------------------------------------------
    def term(self, bb):
        return self.blocks[bb]["term"]

    def succ_of_term(self, t):
        k = t["k"]
        if k == "goto":
            return [t["t"]]
        if k == "switch":
            out = []
            for _, tgt in t["targets"]:
                if tgt not in out:
                    out.append(tgt)
            if t["otherwise"] not in out:
                out.append(t["otherwise"])
            return out
        if k == "call":
            return [t["t"]] if t["t"] >= 0 else []
        if k == "yield":
            return [t["resume"]]
        if k in ("drop", "assert"):
            return [t["t"]]
        return []

    @property
    def succ(self):
        if self._succ is None:
            self._succ = []
            for b in self.blocks:
                if b["cleanup"]:
                    self._succ.append([])
                    continue
                ss = [s for s in self.succ_of_term(b["term"]) if not self.blocks[s]["cleanup"]]
                self._succ.append(ss)
            # drop blocks that can only reach `unreachable` without any effect?  no: keep simple.
        return self._succ

    @property
    def pred(self):
        if self._pred is None:
            self._pred = [[] for _ in self.blocks]
            for i, ss in enumerate(self.succ):
                for s in ss:
                    self._pred[s].append(i)
        return self._pred

    def reachable_blocks(self, start=0, cut_edges=frozenset(), cut_blocks=frozenset()):
        seen = set()
        if start in cut_blocks:
            return seen
        dq = deque([start])
        seen.add(start)
        while dq:
            b = dq.popleft()
            for s in self.succ[b]:
                if (b, s) in cut_edges or s in cut_blocks or s in seen:
                    continue
                seen.add(s)
                dq.append(s)
        return seen

    @property
    def live_blocks(self):
        """Blocks reachable from entry on the normal CFG."""
        if "live" not in self._reach_cache:
            self._reach_cache["live"] = self.reachable_blocks(0)
        return self._reach_cache["live"]

    def return_blocks(self):
        return [i for i in self.live_blocks if self.blocks[i]["term"]["k"] == "return"]

    # ---- sites ------------------------------------------------------------------------------------
    def sites(self):
        for bi in sorted(self.live_blocks):
            b = self.blocks[bi]
            for si, _ in enumerate(b["stmts"]):
                yield Site(self, bi, si)
            yield Site(self, bi, "T")

    def stmt(self, site):
        if site.idx == "T":
            return None
        return self.blocks[site.bb]["stmts"][site.idx]

    def calls(self, pred=None):
        """All live call terminators as (Site, term)."""
        for bi in sorted(self.live_blocks):
            t = self.blocks[bi]["term"]
            if t["k"] == "call" and (pred is None or pred(t)):
                yield Site(self, bi, "T"), t

    def assigns(self, pred=None):
        for bi in sorted(self.live_blocks):
            for si, st in enumerate(self.blocks[bi]["stmts"]):
                if pred is None or pred(st):
                    yield Site(self, bi, si), st

    # ---- definitions of locals ---------------------------------------------------------------
    @property
    def defs(self):
        """local -> list of (Site, kind, payload): kind in assign/call/yield-resume, whole-local writes only
        (`part` for writes through a projection)."""
        if self._defs is None:
            d = defaultdict(list)
            for bi in sorted(self.live_blocks):
                b = self.blocks[bi]
                for si, st in enumerate(b["stmts"]):
                    pl = st["pl"]
                    kind = "assign" if not pl["p"] else ("deref" if pl["p"][0] == "*" else "part")
                    d[pl["l"]].append((Site(self, bi, si), kind, st))
                t = b["term"]
                if t["k"] == "call":
                    pl = t["dest"]
                    kind = "call" if not pl["p"] else ("deref" if pl["p"][0] == "*" else "part")
                    d[pl["l"]].append((Site(self, bi, "T"), kind, t))
                elif t["k"] == "yield":
                    pl = t["resume_arg"]
                    d[pl["l"]].append((Site(self, bi, "T"), "yield", t))
            self._defs = d
        return self._defs

    def single_def(self, local):
        ds = [x for x in self.defs.get(local, []) if x[1] not in ("part", "deref")]
        if len(ds) == 1 and not [x for x in self.defs.get(local, []) if x[1] == "part"]:
            return ds[0]
        return None

    def debug_name(self, local):
        for d in self.debug:
            if d["pl"]["l"] == local and not d["pl"]["p"]:
                return d["name"]
        return None

    def local_by_name(self, name):
        return [d["pl"]["l"] for d in self.debug if d["name"] == name and not d["pl"]["p"]]

    def upvar_names(self):
        """For closures/coroutines: upvar index -> captured variable name (from debug info on `_1`)."""
        out = {}
        for d in self.debug:
            pl = d["pl"]
            if pl["l"] == 1:
                for e in pl["p"]:
                    if isinstance(e, dict) and "f" in e and e["o"].startswith("{upvar}"):
                        out[e["f"]] = d["name"]
                        break
        return out

    # ---- dominators (G3) -------------------------------------------------------------------------
    @property
    def dom(self):
        """Immediate-dominator-free representation: dom[b] = set of blocks dominating b (incl. b)."""
        if self._dom is None:
            live = sorted(self.live_blocks)
            order = self._rpo()
            dom = {b: None for b in live}
            dom[0] = {0}
            changed = True
            while changed:
                changed = False
                for b in order:
                    if b == 0:
                        continue
                    ps = [dom[p] for p in self.pred[b] if p in dom and dom[p] is not None]
                    if not ps:
                        continue
                    new = set.intersection(*ps) | {b}
                    if new != dom[b]:
                        dom[b] = new
                        changed = True
            self._dom = dom
        return self._dom

    def _rpo(self):
        seen, out = set(), []
        stack = [(0, iter(self.succ[0]))]
        seen.add(0)
        while stack:
            b, it = stack[-1]
            adv = False
            for s in it:
                if s not in seen:
                    seen.add(s)
                    stack.append((s, iter(self.succ[s])))
                    adv = True
                    break
            if not adv:
                out.append(b)
                stack.pop()
        out.reverse()
        return out

    def dominates(self, a, b):
        """Site a dominates site b (every normal path from entry to b passes a)."""
        if a.bb == b.bb:
            return a.order() <= b.order()
        d = self.dom.get(b.bb)
        return d is not None and a.bb in d

    # ---- path queries on sites ------------------------------------------------------------------
    def reach_from(self, site, stop=()):
        """Forward reachability from just *after* `site`.  Returns (blocks fully or partly reached as a dict
        bb -> minimal statement order from which the block is entered, i.e. 0 for entered from top).
        `stop` is a collection of Sites that block propagation (the stop site itself counts as reached
        but nothing after it)."""
        stop_by_bb = defaultdict(list)
        for s in stop:
            stop_by_bb[s.bb].append(s.order())
        reached = {}  # bb -> entry order
        # positions: (bb, from_order)
        start_order = site.order() + 1 if site.idx != "T" else None
        work = deque()

        def flow_block(bb, frm):
            """flow through block bb starting from order `frm`; returns True if the end (after terminator) is passed"""
            stops = sorted(o for o in stop_by_bb.get(bb, []) if o >= frm)
            if stops:
                return False
            return True

        if site.idx != "T":
            if flow_block(site.bb, start_order):
                for s in self.succ[site.bb]:
                    work.append(s)
            reached_partial = (site.bb, start_order)
        else:
            for s in self.succ[site.bb]:
                work.append(s)
            reached_partial = None
        while work:
            b = work.popleft()
            if b in reached:
                continue
            reached[b] = 0
            if flow_block(b, 0):
                for s in self.succ[b]:
                    if s not in reached:
                        work.append(s)
        return reached, reached_partial

    def site_reaches(self, a, b, stop=()):
        """Is there a normal path from just after a to b (b itself not needing to be passed) avoiding `stop`?"""
        stop = [s for s in stop]
        reached, partial = self.reach_from(a, stop)
        # same block, later position
        if partial and partial[0] == b.bb and b.order() >= partial[1]:
            # any stop between?
            between = [s for s in stop if s.bb == b.bb and partial[1] <= s.order() < b.order()]
            if not between:
                return True
        if b.bb in reached:
            between = [s for s in stop if s.bb == b.bb and s.order() < b.order()]
            if not between:
                return True
        return False

    def entry_reaches(self, b, stop=()):
        """Is b reachable from function entry avoiding `stop` sites?"""
        stop_by_bb = defaultdict(list)
        for s in stop:
            stop_by_bb[s.bb].append(s.order())
        seen = set()
        work = deque([0])
        while work:
            x = work.popleft()
            if x in seen:
                continue
            seen.add(x)
            if x == b.bb:
                if not [o for o in stop_by_bb.get(x, []) if o < b.order()]:
                    return True
            if stop_by_bb.get(x):
                continue
            for s in self.succ[x]:
                if s not in seen:
                    work.append(s)
        return False

    def return_reachable_from(self, a, stop=()):
        """Can a `return` be reached from just after `a` while avoiding all `stop` sites?"""
        reached, partial = self.reach_from(a, stop)
        stop_bbs = defaultdict(list)
        for s in stop:
            stop_bbs[s.bb].append(s.order())
        cands = set(reached)
        if partial:
            cands.add(partial[0])
        for bb in cands:
            if self.blocks[bb]["term"]["k"] == "return":
                frm = 0 if bb in reached else partial[1]
                if not [o for o in stop_bbs.get(bb, []) if o >= frm]:
                    return True
        return False

    def entry_reaches_return(self, stop=()):
        stop_by_bb = defaultdict(list)
        for s in stop:
            stop_by_bb[s.bb].append(s.order())
        seen = set()
        work = deque([0])
        while work:
            x = work.popleft()
            if x in seen:
                continue
            seen.add(x)
            if stop_by_bb.get(x):
                continue
            if self.blocks[x]["term"]["k"] == "return":
                return True
            for s in self.succ[x]:
                work.append(s)
        return False

    def in_cycle(self, site):
        return self.site_reaches(site, site) if site.idx != "T" else self._bb_in_cycle(site.bb)

    def _bb_in_cycle(self, bb):
        seen = set()
        work = deque(self.succ[bb])
        while work:
            x = work.popleft()
            if x == bb:
                return True
            if x in seen:
                continue
            seen.add(x)
            work.extend(self.succ[x])
        return False

    # ---- edges of a switch -----------------------------------------------------------------------
    def switch_edges(self, bb):
        """For a switch terminator: list of (value or None for otherwise, target)."""
        t = self.blocks[bb]["term"]
        assert t["k"] == "switch"
        out = [(v, tgt) for v, tgt in t["targets"]]
        out.append((None, t["otherwise"]))
        return out

    def guarded_by_edges(self, site, edges):
        """True iff every normal path from entry to `site` crosses one of `edges` (set of (from_bb,to_bb))."""
        edges = set(edges)
        seen = set()
        work = deque([0])
        while work:
            x = work.popleft()
            if x in seen:
                continue
            seen.add(x)
            if x == site.bb:
                return False
            for s in self.succ[x]:
                if (x, s) in edges:
                    continue
                work.append(s)
        return True


# --------------------------------------------------------------------------------------------------
# crate-level facts
# --------------------------------------------------------------------------------------------------

class Facts:
    def __init__(self, directory, crates=("cucumber", "cucumber_codegen")):
        self.dir = directory
        self.bodies = {}
        self.crates = {}
        self.adts = {}
        self.impls = []
        self.sigs = {}
        self.statics = []
        for c in crates:
            p = os.path.join(directory, c + ".json")
            if not os.path.exists(p):
                continue
            with open(p) as f:
                raw = json.load(f)
            self.crates[c] = raw
            _uniquify(raw)
            for b in raw["bodies"]:
                body = Body(b, c)
                # def paths are unique per crate; codegen bodies are prefixed to avoid collisions
                key = body.name if c == "cucumber" else f"{c}::{body.name}"
                if key in self.bodies:
                    # duplicated path (e.g. two `impl` blocks generating same pretty path): keep both
                    n = 2
                    while f"{key}#{n}" in self.bodies:
                        n += 1
                    key = f"{key}#{n}"
                body.key = key
                self.bodies[key] = body
            for a in raw["adts"]:
                self.adts[(c, a["path"])] = a
            for i in raw["impls"]:
                i["crate"] = c
                self.impls.append(i)
            for s in raw["sigs"]:
                self.sigs[(c, s["path"])] = s
            for s in raw["statics"]:
                s["crate"] = c
                self.statics.append(s)
        self._children = None
        self._callers = None

    def crate_bodies(self, crate="cucumber"):
        return [b for b in self.bodies.values() if b.crate == crate]

    def body(self, name, crate="cucumber"):
        key = name if crate == "cucumber" else f"{crate}::{name}"
        return self.bodies.get(key)

    def find(self, regex, crate="cucumber"):
        r = re.compile(regex)
        return [b for b in self.bodies.values() if b.crate == crate and r.search(b.name)]

    def one(self, regex, crate="cucumber"):
        bs = self.find(regex, crate)
        if len(bs) != 1:
            raise Unverifiable(f"role anchor /{regex}/ resolved to {len(bs)} bodies: {[b.name for b in bs][:5]}")
        return bs[0]

    def adt(self, path, crate="cucumber"):
        return self.adts.get((crate, path))

    @property
    def children(self):
        """parent def path -> list of closure/coroutine bodies directly nested in it"""
        if self._children is None:
            ch = defaultdict(list)
            for b in self.bodies.values():
                if b.kind in ("Closure", "SyntheticCoroutineBody", "InlineConst", "AnonConst") and b.parent:
                    key = b.parent if b.crate == "cucumber" else f"{b.crate}::{b.parent}"
                    ch[key].append(b)
            self._children = ch
        return self._children

    def nested(self, body, include_self=True):
        """body and all closures / coroutines (transitively) defined inside it."""
        out = [body] if include_self else []
        work = [body]
        while work:
            x = work.pop()
            for c in self.children.get(x.key, []):
                out.append(c)
                work.append(c)
        return out

    def root_fn(self, body):
        """Outermost enclosing fn item of a closure/coroutine body."""
        b = body
        while b.kind in ("Closure", "SyntheticCoroutineBody", "InlineConst", "AnonConst") and b.parent:
            key = b.parent if b.crate == "cucumber" else f"{b.crate}::{b.parent}"
            p = self.bodies.get(key)
            if p is None:
                break
            b = p
        return b

    def parent_body(self, body):
        if not body.parent:
            return None
        key = body.parent if body.crate == "cucumber" else f"{body.crate}::{body.parent}"
        return self.bodies.get(key)

    # ---- call graph (G6) ----------------------------------------------------------------------
    def callee_body(self, term, crate="cucumber"):
        """Body of the statically known, crate-local callee of a call terminator (or None)."""
        f = op_fn(term["func"])
        if not f or not f.get("local"):
            return None
        for path in (f.get("res") or None, f["path"]):
            if path:
                b = self.body(path, crate)
                if b is not None:
                    return b
        return None

    def const_str_of(self, op, crate="cucumber", depth=0):
        """const_str, also through a named `const X: &str = "..";` (the operand then names the constant: its initialiser is a body)."""
        v = const_str(op)
        if v is not None:
            return v
        c = op_const(op)
        if c is None or depth > 2 or not c.get("ty", "").endswith("str"):
            return None
        cb = self.body(re.sub(r"^const ", "", c["text"]), crate)
        if cb is None:
            return None
        vals = {self.const_str_of(o, crate, depth + 1) for _, st in cb.assigns(lambda st: st["pl"]["l"] == 0 and not st["pl"]["p"]) for o in rvalue_operands(st["rv"])}
        return vals.pop() if len(vals) == 1 else None

    def callee_body_impl(self, term, crate="cucumber"):
        """callee_body, or - for a trait call the compiler could not resolve in generic code - the unique crate-local impl
        of that trait for the receiver's ADT (`<FailOnSkipped<T> as From<T>>::from` -> the body of that impl's `from`)."""
        cb = self.callee_body(term, crate)
        if cb is not None:
            return cb
        f = op_fn(term["func"])
        if not f or not f.get("trait") or not f.get("self"):
            return None
        adt = re.sub(r"<.*$", "", f["self"].lstrip("&").replace("mut ", ""))
        meth = f["path"].rsplit("::", 1)[-1]
        c = [b for b in self.bodies.values() if b.crate == crate and (b.impl or {}).get("trait") == f["trait"]
             and (b.impl or {}).get("self_adt") == adt and b.name.endswith("::" + meth) and b.kind in ("Fn", "AssocFn")]
        return c[0] if len(c) == 1 else None

    def callers_of(self, body):
        if self._callers is None:
            cs = defaultdict(list)
            for b in self.bodies.values():
                for site, t in b.calls():
                    cb = self.callee_body(t, b.crate)
                    if cb is not None:
                        cs[cb.key].append(site)
                # fn items mentioned as values (passed as fn pointers / to combinators)
                for site, st in b.assigns():
                    pass
            self._callers = cs
        return self._callers.get(body.key, [])

    def fn_refs(self, path_regex, crate="cucumber"):
        """All sites (call funcs, call args, assigned operands) mentioning a fn item matching the regex."""
        r = re.compile(path_regex)
        out = []
        for b in self.crate_bodies(crate):
            for bi in sorted(b.live_blocks):
                blk = b.blocks[bi]
                for si, st in enumerate(blk["stmts"]):
                    for op in rvalue_operands(st["rv"]):
                        f = op_fn(op)
                        if f and (r.search(f["path"]) or (f.get("res") and r.search(f["res"]))):
                            out.append((Site(b, bi, si), "value", f))
                t = blk["term"]
                if t["k"] == "call":
                    f = op_fn(t["func"])
                    if f and (r.search(f["path"]) or (f.get("res") and r.search(f["res"]))):
                        out.append((Site(b, bi, "T"), "call", f))
                    for a in t["args"]:
                        f = op_fn(a)
                        if f and (r.search(f["path"]) or (f.get("res") and r.search(f["res"]))):
                            out.append((Site(b, bi, "T"), "arg", f))
        return out


def _uniquify(raw):
    """Def paths are not unique in crates full of anonymous items (`const _: () = {..}` of macro expansions: every
    expansion is `_::__INVENTORY::{closure#1}`).  When duplicates exist, rebuild every path from the parent chain
    with the numeric def index appended to ambiguous segments, and rewrite closure / fn references accordingly."""
    bodies = raw["bodies"]
    names = [b["def"] for b in bodies]
    if len(set(names)) == len(names) or not bodies or "id" not in bodies[0]:
        return
    by_id = {b["id"]: b for b in bodies}
    dup = {n for n in names if names.count(n) > 1}
    new_name = {}

    def uname(b):
        if b["id"] in new_name:
            return new_name[b["id"]]
        name = b["def"]
        par = by_id.get(b.get("parent_id", -1))
        if par is not None and name.startswith(par["def"] + "::"):
            res = uname(par) + name[len(par["def"]):]
        else:
            res = name
        if name in dup and (par is None or not name.startswith(par["def"] + "::") or uname(par) == par["def"]):
            # ambiguity starts here
            if res == name:
                res = f"{name}#{b['id']}"
        new_name[b["id"]] = res
        return res

    for b in bodies:
        uname(b)
    # second pass: children of renamed parents that are not bodies themselves cannot be fixed; ensure uniqueness
    seen = {}
    for b in bodies:
        n = new_name[b["id"]]
        if n in seen:
            n = f"{n}#{b['id']}"
            new_name[b["id"]] = n
        seen[n] = True

    def fix_op(op):
        if isinstance(op, dict):
            if op.get("k") == "fn" and op.get("id", -1) in new_name:
                op["path"] = new_name[op["id"]]
            for v in op.values():
                if isinstance(v, (dict, list)):
                    fix_op(v)
        elif isinstance(op, list):
            for v in op:
                fix_op(v)

    for b in bodies:
        b["def"] = new_name[b["id"]]
        par = by_id.get(b.get("parent_id", -1))
        if par is not None:
            b["parent"] = new_name[par["id"]]
        for blk in b["blocks"]:
            for st in blk["stmts"]:
                rv = st["rv"]
                if rv.get("k") == "agg" and rv.get("def_id", -1) in new_name:
                    rv["def"] = new_name[rv["def_id"]]
                fix_op(rv)
            fix_op(blk["term"])


class Unverifiable(Exception):
    """A role anchor could not be resolved or a floor was not met: the rule must fail closed."""


def rvalue_operands(rv):
    k = rv["k"]
    if k in ("use", "cast"):
        return [rv["op"]]
    if k == "bin":
        return [rv["a"], rv["b"]]
    if k == "un":
        return [rv["a"]]
    if k == "agg":
        return list(rv["ops"])
    return []


def rvalue_places(rv):
    """Places read by an rvalue."""
    out = []
    for op in rvalue_operands(rv):
        p = op_place(op)
        if p is not None:
            out.append(p)
    if rv["k"] in ("ref", "discr"):
        out.append(rv["pl"])
    return out


def callee_path(term):
    f = op_fn(term["func"])
    return f["path"] if f else None


def callee_is(term, *regexes):
    f = op_fn(term["func"])
    if not f:
        return False
    for r in regexes:
        if re.search(r, f["path"]) or re.search(r, f.get("full", "")) or (f.get("res") and re.search(r, f["res"])):
            return True
    return False


# --------------------------------------------------------------------------------------------------
# pretty printer (for calibration and for violation reports)
# --------------------------------------------------------------------------------------------------

def fmt_op(op):
    k = op.get("k")
    if k in ("copy", "move"):
        return ("move " if k == "move" else "") + place_str(op["pl"])
    if k == "const":
        return op["text"]
    if k == "fn":
        return "fn:" + op["full"]
    return "?"


def fmt_rv(rv):
    k = rv["k"]
    if k == "use":
        return fmt_op(rv["op"])
    if k == "ref":
        return ("&mut " if rv["mut"] else "&") + place_str(rv["pl"])
    if k == "bin":
        return f"{rv['op']}({fmt_op(rv['a'])}, {fmt_op(rv['b'])})"
    if k == "un":
        return f"{rv['op']}({fmt_op(rv['a'])})"
    if k == "discr":
        return f"discriminant({place_str(rv['pl'])}) : {rv['adt']}"
    if k == "cast":
        return f"{fmt_op(rv['op'])} as {rv['ty']} ({rv['kind']})"
    if k == "agg":
        ops = ", ".join(fmt_op(o) for o in rv["ops"])
        a = rv["agg"]
        if a == "adt":
            if rv.get("fields"):
                ops = ", ".join(f"{n}: {fmt_op(o)}" for n, o in zip(rv["fields"], rv["ops"]))
            return f"{rv['adt']}::{rv['variant']} {{{ops}}}"
        if a in ("closure", "coroutine", "coroutine_closure"):
            return f"{a}[{rv['def']}]({ops})"
        return f"{a}({ops})"
    if k == "setdiscr":
        return f"setdiscr {rv['i']}"
    return rv.get("text", "?")


def fmt_term(t):
    k = t["k"]
    if k == "goto":
        return f"goto bb{t['t']}"
    if k == "switch":
        ts = ", ".join(f"{v}->bb{b}" for v, b in t["targets"])
        return f"switch({fmt_op(t['discr'])}) [{ts}, else->bb{t['otherwise']}]"
    if k == "call":
        args = ", ".join(fmt_op(a) for a in t["args"])
        f = t["func"]
        fn = f["full"] if f.get("k") == "fn" else fmt_op(f) + " : " + t["fty"]
        res = f" ⇒{f['res']}" if f.get("k") == "fn" and f.get("res") else ""
        return f"{place_str(t['dest'])} = {fn}{res}({args}) -> bb{t['t']}"
    if k == "yield":
        return f"yield -> bb{t['resume']} (drop bb{t['drop']})"
    if k == "drop":
        return f"drop({place_str(t['pl'])}) -> bb{t['t']}"
    if k == "assert":
        return f"assert({fmt_op(t['cond'])} == {t['expected']}) -> bb{t['t']}"
    return k


def dump_body(body, out=sys.stdout, with_spans=True):
    out.write(f"=== {body.name}  [{body.kind}{' coroutine' if body.is_coroutine else ''}] {fmt_span(body.span)}\n")
    names = {d["pl"]["l"]: d["name"] for d in body.debug if not d["pl"]["p"]}
    for i, ty in enumerate(body.locals):
        nm = names.get(i)
        out.write(f"    let _{i}: {ty}{'  // ' + nm if nm else ''}{'  (arg)' if 1 <= i <= body.arg_count else ''}\n")
    for d in body.debug:
        if d["pl"]["p"]:
            out.write(f"    debug {d['name']} => {place_str(d['pl'])}\n")
    live = body.live_blocks
    for b in body.blocks:
        if b["cleanup"] or b["i"] not in live:
            continue
        out.write(f"  bb{b['i']}:\n")
        for st in b["stmts"]:
            sp = f"   // {fmt_span(st['sp'])}" if with_spans else ""
            out.write(f"    {place_str(st['pl'])} = {fmt_rv(st['rv'])}{sp}\n")
        t = b["term"]
        sp = f"   // {fmt_span(t.get('sp', ''))}" if with_spans and t.get("sp") else ""
        out.write(f"    {fmt_term(t)}{sp}\n")
