"""C05 — retries: re-run exactly on failure within budget, fresh, sequential, delayed (DESIGN §4 C05)."""
import re

from . import analysis as A
from . import roles
from . import writers as W
from . import sched as S
from . import deep as D
from .c04 import role_enqueue, role_get, role_insert, _reaches_block
from .mir import Site, Unverifiable, callee_is, callee_path, const_int, op_fn, op_local, op_place, place_fields, place_str

CFGS = {"quick": ["default", "all"], "thorough": ["default", "all", "nodefault", "tracing"]}

EXPLANATION = """
Static rules over the MIR of the retry path: (R1) the retry decision: the only re-insertion call is guarded by
`next_try` being Some, `next_try` = retries.filter(|_| is_failed).and_then(RetryOptions::next_try), it follows the
Scenario::Finished emission on every path, precedes the completion notification, and the notification's `retried`
flag is next_try.is_some(); (R2) `is_failed` is true exactly on BeforeHookPanicked / StepPanicked or an after-hook
error and false on Ok / StepSkipped (variant table of the classification + the `||`); (R3) arithmetic of
Retries::next_try (left-1 via checked_sub, current+1), Retries::initial (current 0, left n), RetryOptions::next_try
keeps `after`; (R4) deadline stamping: non-initial attempts go through with_deadline(now) with now = Instant::now()
of the same call, initial ones through without_deadline; left_until_retry = dur.checked_sub(instant.elapsed());
the drain predicate keeps an entry exactly when time is left and its minimum is what EXECUTE sleeps on;
(R5) freshness/no overlap: re-insertion only after Finished (R1) + World linearity (C09).
Not decided: that the elapsed wall-clock time is really >= the delay on a given clock.
Added after the second seeded round: (R5) the retry resolver is called once per enqueued scenario with the scenario's own feature, rule and scenario (= C18.R5).
"""
DECLINED = ["real elapsed time versus the configured delay (timing)"]
ASSUMPTIONS = ["Instant::elapsed is monotonic; Duration::checked_sub is None iff rhs > lhs"]


def rs_bodies(F):
    rs = roles.run_scenario(F)
    return rs, F.nested(rs)


def reinsert_call(F, rs):
    """The call in RUN_SCENARIO to the crate-local async fn whose body calls ENQUEUE."""
    _, _, enq = role_enqueue(F)
    enq_fn = F.parent_body(enq)
    out = []
    for s, t in rs.calls():
        co = roles.async_callee(F, rs, t)
        if co is None:
            continue
        if any(F.callee_body(t2) is enq_fn for _, t2 in co.calls()):
            out.append((s, t, co))
    if len(out) != 1:
        raise Unverifiable(f"re-insertion call sites in RUN_SCENARIO: {len(out)}")
    return out[0]


def notify_call(F, rs):
    """The completion notification: a crate-local callee of RS that sends a tuple on an UnboundedSender whose item is
    not an event (the finished channel)."""
    out = []
    for s, t in rs.calls():
        cb = F.callee_body(t)
        if cb is None or cb.is_coroutine:
            continue
        for s2, t2 in roles.sends(F, [cb]):
            f = op_fn(t2["func"])
            if f and "event::Event" not in f.get("full", "") and "ScenarioId" in f.get("full", ""):
                out.append((s, t, cb, s2, t2))
    if len(out) != 1:
        raise Unverifiable(f"completion notification call sites in RUN_SCENARIO: {len(out)}")
    return out[0]


def _is_failed_term(tab, no_fn):
    """The awaited attempt verdict: the await term passed as the `failed` argument of the completion notification."""
    for p in tab:
        for e in p.effects:
            if e[0] == "call" and e[1] == no_fn.name:
                for a in e[2]:
                    if isinstance(a, tuple) and a and a[0] == "await":
                        return a
    return None


def r1(F, R):
    """Decided on the path table of RUN_SCENARIO's coroutine (deep.py): which effects happen under which conditions."""
    rs, nested = rs_bodies(F)
    s_re, t_re, re_co = reinsert_call(F, rs)
    re_fn = F.parent_body(re_co)
    s_no, t_no, no_fn, s_send, t_send = notify_call(F, rs)
    tab = D.Deep(F, rs, inline=False, max_paths=4000).run()
    if not tab or any(p.cut for p in tab):
        raise Unverifiable("RUN_SCENARIO: empty path table or a loop")
    T = _is_failed_term(tab, no_fn)
    if T is None:
        raise Unverifiable("the attempt's verdict (awaited bool passed to the completion notification) was not found")
    nt_fns = [b for b in F.crate_bodies() if b.locals[0] == "std::option::Option<runner::basic::RetryOptions>" and b.impl and b.impl.get("self_adt") == "runner::basic::RetryOptions"
              and not b.impl.get("trait") and b.arg_count == 1]
    if len(nt_fns) != 1:
        raise Unverifiable(f"RetryOptions::next_try role: {len(nt_fns)}")
    nt_fn = nt_fns[0]
    ok_a = any(F.callee_body(t2) is not None and F.callee_body(t2).impl and F.callee_body(t2).impl.get("self_adt") == "event::Retries" for _, t2 in nt_fn.calls())
    R.check(ok_a, "next-try-budget", nt_fn, ".and_then(RetryOptions::next_try)", "RetryOptions::next_try does not go through Retries::next_try (budget arithmetic bypassed)")
    n_re = 0
    for p in tab:
        failed = [out for a, out in p.conds if a == T]
        failed = failed[0] if failed else None
        ntc = [(i, e) for i, e in enumerate(p.effects) if e[0] == "call" and e[1] == nt_fn.name]
        nt_out = None
        nt_term = None
        if ntc:
            e = ntc[0][1]
            nt_term = ("call", e[1], e[2], e[4])
            for a, out in p.conds:
                if a == ("discr", nt_term):
                    nt_out = out
        res = [(i, e) for i, e in enumerate(p.effects) if e[0] == "call" and e[1] == re_fn.name]
        res_aw = [(i, e) for i, e in enumerate(p.effects) if e[0] == "await" and e[1][0] == "call" and e[1][1] == re_fn.name]
        nos = [(i, e) for i, e in enumerate(p.effects) if e[0] == "call" and e[1] == no_fn.name]
        fin = [i for i, e in enumerate(p.effects) if e[0] == "call" and re.search(r"send_event", e[1]) and
               any(D.mentions(x, lambda y: D.is_variant(y, "event::Scenario", "Finished")) for x in e[2])]
        reins = bool(res_aw)
        R.check(len(res) == len(res_aw), "reinsert-awaited", s_re, "the re-insertion future is awaited", "the re-insertion future is created but not awaited")
        R.check(reins == (failed is True and nt_out == "Some"), "reinsert-iff-next-try", s_re, "re-insertion ⇔ failed ∧ next_try is Some",
                f"the scenario is {'re-inserted' if reins else 'not re-inserted'} on a path with verdict={failed}, next_try={nt_out}")
        R.check(not ntc or failed is True, "next-try-filter-is-failed", s_re, "next_try is computed only for a failed attempt",
                "next_try is computed for an attempt that did not fail: a passed or skipped attempt could be retried")
        if ntc:
            arg = ntc[0][1][2][0]
            R.check(D.mentions(arg, lambda y: y[0] == "field" and y[1] in (("arg", 1), ("deref", ("arg", 1)))), "next-try-from-retries", s_re, "next_try(retries of this attempt)",
                    "next_try is not computed from this attempt's retry options")
        if reins:
            n_re += 1
            i_re = res_aw[0][0]
            R.check(D.mentions(res[0][1][2], lambda y: y == nt_term), "reinsert-uses-next-try", s_re, "re-inserted with Some(next_try)",
                    "the re-inserted scenario does not carry `next_try`")
            R.check(bool(fin) and fin[-1] < i_re, "reinsert-after-finished", s_re, "re-insertion follows the sending of Finished",
                    "the scenario is re-inserted before its Finished event is sent (attempts could overlap)")
            R.check(bool(nos) and i_re < nos[0][0], "reinsert-before-notify", s_no, "the notification follows the re-insertion",
                    "with a retry left, the completion is notified without re-inserting the scenario first")
        if len(nos) != 1:
            R.violation("notify-once", s_no, f"{len(nos)} completion notifications on one path")
            continue
        flag = nos[0][1][2][-1]
        R.check(flag == ("const", reins), "notify-retried-flag", s_no, "retried flag = next_try.is_some()",
                f"the `retried` flag of the completion message is {D.fmt(rs, flag)[:60]} on a path where the scenario is {'re-inserted' if reins else 'not re-inserted'}")
        R.check(bool(fin) and fin[-1] < nos[0][0], "finished-sent-before-notify", s_no, "Finished is sent before the completion is notified", "the completion can be notified before Finished is sent")
    R.check(n_re >= 1, "reinsert-path-exists", s_re, "a path re-inserts", "no path re-inserts the scenario")
    R.floor(8)


def bool_consts(body, local):
    out = []
    for site, kind, payload in body.defs.get(local, []):
        if kind == "assign" and payload["rv"]["k"] == "use" and const_int(payload["rv"]["op"]) is not None:
            out.append((site, bool(const_int(payload["rv"]["op"]))))
        else:
            out.append((site, None))
    return out


def edge_const(body, bb, local, limit=12):
    """Constant assigned to `local` on the straight-line continuation of block `bb` (None if it branches first)."""
    cur = bb
    for _ in range(limit):
        for st in body.blocks[cur]["stmts"]:
            if st["pl"]["l"] == local and not st["pl"]["p"]:
                if st["rv"]["k"] == "use" and const_int(st["rv"]["op"]) is not None:
                    return bool(const_int(st["rv"]["op"]))
                return None
        ss = body.succ[cur]
        if len(ss) != 1:
            return None
        cur = ss[0]
    return None


def r2(F, R):
    """The attempt's verdict, decided on the path table of the attempt future (the async block whose awaited bool is the
    verdict): verdict ⇔ result ∈ {BeforeHookPanicked, StepPanicked} ∨ the after hook failed."""
    rs, nested = rs_bodies(F)
    EF = "runner::basic::ExecutionFailure"
    cands = [b for b in nested if b.is_coroutine and b is not rs and any("AfterHookEventsMeta" in aw.fut_type for aw in A.awaits(b))]
    if len(cands) != 1:
        raise Unverifiable(f"attempt future (async block awaiting the after hook): {len(cands)}")
    b = cands[0]
    ah_names = set()
    for aw in A.awaits(b):
        if "AfterHookEventsMeta" not in aw.fut_type or aw.src_op is None:
            continue
        l = op_local(aw.src_op)
        sd = b.single_def(l) if l is not None else None
        if sd and sd[1] == "call" and op_fn(sd[2]["func"]):
            f = op_fn(sd[2]["func"])
            ah_names.add(f.get("res") or f["path"])
    if len(ah_names) != 1:
        raise Unverifiable(f"after-hook routine: {len(ah_names)}")
    ah = next(iter(ah_names))
    # only the failure type's own small methods are inlined (`scenario_failed.is_panicked()`)
    tab = D.Deep(F, b, inline_only=lambda cb: (cb.impl or {}).get("self_adt") == EF and not (cb.impl or {}).get("trait"), max_paths=6000).run()
    if not tab or any(p.cut for p in tab):
        raise Unverifiable("attempt future: empty path table or a loop")
    efa = F.adts.get(("cucumber", EF))
    all_ef = {v["name"] for v in efa["variants"]}
    FAIL = {"BeforeHookPanicked", "StepPanicked"}
    R.check(all_ef == FAIL | {"StepSkipped"}, "failure-kinds", b, f"{sorted(all_ef)}", f"ExecutionFailure has variants {sorted(all_ef)}: the classification table covers {sorted(FAIL | {'StepSkipped'})}")
    seen_ef, bad_table, bad_ok, bad_ah, n_ah_err = set(), None, None, None, 0
    for p in tab:
        if not (p.ret[0] == "const" and isinstance(p.ret[1], bool)):
            raise Unverifiable(f"the attempt future returns {D.fmt(b, p.ret)[:60]}")
        ef = None
        for a, out in p.conds:
            if a[0] == "discr" and isinstance(out, str) and set(out.split("|")) <= all_ef:
                vs = set(out.split("|"))
                ef = vs if ef is None else ef & vs
        ah_out = None
        for a, out in p.conds:
            if a[0] == "discr" and a[1][0] == "await" and a[1][1][0] == "call" and a[1][1][1] == ah:
                ah_out = out
        if ah_out is None:
            R.violation("after-hook-consulted", b, "a path of the attempt future finishes without consulting the after hook's result")
            continue
        if ef is not None:
            seen_ef |= ef
        classified = ef is not None and ef <= FAIL
        mixed = ef is not None and not ef <= FAIL and ef & FAIL
        if mixed and ah_out != "Err":
            bad_table = f"failure kinds {sorted(ef)} are not told apart"
            continue
        want = classified or ah_out == "Err"
        if ah_out == "Err":
            n_ah_err += 1
        if p.ret[1] != want:
            if ah_out == "Err":
                bad_ah = "an after-hook failure does not fail the attempt"
            elif ef is None:
                bad_ok = p.ret[1]
            else:
                bad_table = f"{sorted(ef)} -> {p.ret[1]}"
    site = b
    R.check(bad_table is None and seen_ef == all_ef, "failure-classification-table", site, "BeforeHookPanicked, StepPanicked -> failed; StepSkipped -> not failed",
            f"an attempt is classified failed wrongly ({bad_table or 'kinds seen: ' + str(sorted(seen_ef))}); expected BeforeHookPanicked, StepPanicked -> failed, StepSkipped -> not failed")
    R.check(bad_ok is None, "ok-is-not-failed", site, "Ok(_) => false", f"the Ok arm classifies the attempt as {bad_ok}")
    R.check(bad_ah is None and n_ah_err >= 1, "verdict-is-disjunction", site, "is_failed = classification || after_hook_error.is_some()",
            bad_ah or "no path sees the after hook fail")
    R.check(bad_ah is None and n_ah_err >= 1, "failed-on-after-hook-error", site, "failed ⇐ after-hook error", bad_ah or "no path sees the after hook fail")
    R.floor(4)


def next_try_semantics(F):
    """Retries::next_try on its deep path table: (body, some_iff_left_positive, fields_ok, why)."""
    nt = [b for b in F.crate_bodies() if b.impl and b.impl.get("self_adt") == "event::Retries" and not b.impl.get("trait")
          and b.locals[0] == "std::option::Option<event::Retries>" and b.arg_count == 1]
    if len(nt) != 1:
        raise Unverifiable(f"Retries::next_try role: {len(nt)}")
    b = nt[0]
    flds = {f["name"]: i for i, f in enumerate(F.adts[("cucumber", "event::Retries")]["variants"][0]["fields"])}
    L, C = ("field", ("arg", 1), flds["left"]), ("field", ("arg", 1), flds["current"])
    rows = D.Deep(F, b, max_paths=50).run()
    iff, fields_ok, why = bool(rows), True, ""
    seen = set()
    for p in rows:
        z = [o for a, o in p.conds if a == ("bin", "Eq", L, ("const", 0))]
        if p.cut or len(z) != 1:
            iff, why = False, "the result does not depend on `left == 0` alone"
            continue
        is_some = D.is_variant(p.ret, "std::option::Option", "Some")
        seen.add(is_some)
        if is_some == z[0]:
            iff, why = False, f"with left {'==' if z[0] else '>'} 0 the result is {'Some' if is_some else 'None'}"
        if is_some:
            r = p.ret[3][0]
            okf = D.is_variant(r, "event::Retries") and r[3][flds["left"]] == ("bin", "Sub", L, ("const", 1)) and r[3][flds["current"]] == ("bin", "Add", C, ("const", 1))
            if not okf:
                fields_ok = False
    return b, iff and seen == {True, False}, fields_ok, why


def r3(F, R):
    b, iff, fields_ok, why = next_try_semantics(F)
    R.check(iff, "next-try/left-minus-one", b, "Some iff left > 0 (left.checked_sub(1))", "Retries::next_try is not `Some exactly when a retry is left`" + (": " + why if why else ""))
    R.check(iff, "next-try/map-on-checked-sub", b, "", "Retries::next_try can be Some although left == 0")
    R.check(fields_ok, "next-try/fields", b, "Retries { current: current + 1, left: left - 1 }", "the next attempt's counters are not (current+1, left-1)")
    ini = [b2 for b2 in F.crate_bodies() if b2.impl and b2.impl.get("self_adt") == "event::Retries" and not b2.impl.get("trait")
           and b2.locals[0] == "event::Retries" and b2.arg_count == 1 and b2.locals[1] == "usize"]
    R.check(len(ini) == 1, "initial/found", None, "", f"Retries::initial candidates: {len(ini)}")
    if len(ini) == 1:
        flds = {f["name"]: i for i, f in enumerate(F.adts[("cucumber", "event::Retries")]["variants"][0]["fields"])}
        rows = D.Deep(F, ini[0], max_paths=20).run()
        okk = len(rows) == 1 and D.is_variant(rows[0].ret, "event::Retries") and rows[0].ret[3][flds["current"]] == ("const", 0) and rows[0].ret[3][flds["left"]] == ("arg", 1)
        R.check(okk, "initial/fields", ini[0], "Retries { current: 0, left: n }", "Retries::initial does not start at current=0, left=n")
    # RetryOptions::next_try: the budget step of its `retries`, `after` carried over unchanged
    ro = [b2 for b2 in F.crate_bodies() if b2.impl and b2.impl.get("self_adt") == "runner::basic::RetryOptions" and not b2.impl.get("trait")
          and b2.locals[0] == "std::option::Option<runner::basic::RetryOptions>" and b2.arg_count == 1]
    R.check(len(ro) == 1, "options-next-try/found", None, "", f"RetryOptions::next_try candidates: {len(ro)}")
    if len(ro) == 1:
        of = {f["name"]: i for i, f in enumerate(F.adts[("cucumber", "runner::basic::RetryOptions")]["variants"][0]["fields"])}
        SR, SA = ("field", ("arg", 1), of["retries"]), ("field", ("arg", 1), of["after"])
        rows = D.Deep(F, ro[0], max_paths=50, opaque="^" + re.escape(b.name) + "$").run()
        okk, n_some = bool(rows), 0
        for p in rows:
            calls = [("call", e[1], e[2], e[4]) for e in p.effects if e[0] == "call" and e[1] == b.name]
            if len(calls) != 1 or calls[0][2] != (SR,):
                okk = False
                continue
            out = [o for a, o in p.conds if a == ("discr", calls[0])]
            is_some = D.is_variant(p.ret, "std::option::Option", "Some")
            if out != ["Some" if is_some else "None"]:
                okk = False
            if is_some:
                n_some += 1
                r = p.ret[3][0]
                okk = okk and D.is_variant(r, "runner::basic::RetryOptions") and r[3][of["after"]] == SA and r[3][of["retries"]] == ("field", ("as", calls[0], "Some"), 0)
        R.check(okk and n_some >= 1, "options-next-try/keeps-after", ro[0], "RetryOptions { retries: retries.next_try()?, after: self.after }",
                "RetryOptions::next_try does not step its own `retries` budget and carry `after` over")
    R.floor(6)


def _depends_on_site(F, body, op, site, bodies, depth=0):
    """Does `op` depend on the call at `site`, following helper parameters (async fn: coroutine captures) to call sites?"""
    ds = A.deep_slice(F, body, [op])
    if any(st == site for st, _ in ds.calls):
        return True
    if depth >= 3:
        return False
    for key, pi in ds.root_params:
        root = F.bodies.get(key)
        for fb in bodies:
            for s, t in fb.calls():
                if F.callee_body(t, fb.crate) is root and pi - 1 < len(t["args"]) and _depends_on_site(F, fb, t["args"][pi - 1], site, bodies, depth + 1):
                    return True
    return False


def r4(F, R):
    _, _, enq = role_enqueue(F)
    # with_deadline / without_deadline roles, by signature: inherent methods of RetryOptions returning RetryOptionsWithDeadline,
    # with / without an Instant parameter
    WD = "runner::basic::RetryOptionsWithDeadline"
    RO_ = "runner::basic::RetryOptions"
    cands = [x for x in F.crate_bodies() if x.impl and x.impl.get("self_adt") == RO_ and not x.impl.get("trait") and x.kind == "AssocFn" and x.locals[0] == WD]
    with_d = [x for x in cands if x.arg_count == 2 and x.locals[1] == RO_ and x.locals[2] == "std::time::Instant"]
    without_d = [x for x in cands if x.arg_count == 1 and x.locals[1] == RO_]
    if len(with_d) != 1 or len(without_d) != 1:
        raise Unverifiable("with_deadline / without_deadline roles")
    with_d, without_d = with_d[0], without_d[0]

    def stamp(root):
        """On the routine's path table (helpers inlined): the set of stamps it puts next to the delay — 'now' (Some(<its Instant
        parameter>)), 'None', or '?'."""
        out = set()
        for p in D.Deep(F, root, max_paths=50).run():
            for x in D.subterms(p.ret):
                if x[0] == "tuple" and len(x[1]) == 2 and D.is_variant(x[1][1], "std::option::Option"):
                    st_ = x[1][1]
                    if st_[2] == "None":
                        out.add("None")
                    elif st_[3] == (("arg", 2),):
                        out.add("Some")
                    else:
                        out.add("?")
        return out
    R.check(stamp(with_d) == {"Some"}, "with-deadline-stamps-now", with_d, "after.map(|at| (at, Some(now)))", f"with_deadline stamps {sorted(stamp(with_d))}")
    R.check(stamp(without_d) == {"None"}, "without-deadline-stamps-none", without_d, "after.map(|at| (at, None))", f"without_deadline stamps {sorted(stamp(without_d))}")
    # routing in ENQUEUE
    fam = roles.family(F, enq)
    wcalls = [(s, t) for fb in fam for s, t in fb.calls() if F.callee_body(t) is with_d]
    fam_keys = {fb.key for fb in fam}
    wo_refs = [(s, k, f) for s, k, f in F.fn_refs("^" + re.escape(without_d.name) + "$") if s.body.key in fam_keys]
    R.check(len(wcalls) == 1 and len(wo_refs) == 1 and wcalls[0][0].body is wo_refs[0][0].body, "routing-sites", enq, "", f"with_deadline calls: {len(wcalls)}, without_deadline refs: {len(wo_refs)}")
    if len(wcalls) == 1 and len(wo_refs) == 1 and wcalls[0][0].body is wo_refs[0][0].body:
        enq = wcalls[0][0].body  # the body (ENQUEUE itself or a private helper of it) that routes entries
        s_w, t_w = wcalls[0]
        s_wo = wo_refs[0][0]
        def current_guard(site):
            """value set of the switch on `.retries.current` guarding the site: 'zero' / 'nonzero' / None"""
            for g in A.guards_of(enq, site):
                l = g.discr_local
                pl = None
                if l is None:
                    pl = op_place(g.term["discr"])
                else:
                    d = A.local_def_desc(enq, l)
                    if d[0] == "place":
                        pl = d[1]
                if pl is not None and place_fields(pl) and place_fields(pl)[-1] == ("event::Retries", "current"):
                    if set(g.values) == {0}:
                        return "zero"
                    if None in g.values and 0 not in g.values:
                        return "nonzero"
                    return "mixed"
            return None
        gw = current_guard(s_w)
        R.check(gw == "nonzero", "retried-entries-get-deadline", s_w, "with_deadline only when retries.current != 0",
                f"with_deadline is applied under current {gw}: delayed retries are not stamped (start at once) or initial runs are delayed")
        # without_deadline is reachable for current == 0 (or None); it must not be the route for current != 0
        vcwo = A.vc_at(enq, s_wo)
        reach_nonzero = False
        for bb in enq.live_blocks:
            t = enq.blocks[bb]["term"]
            if t["k"] != "switch":
                continue
            l = op_local(t["discr"])
            d = A.local_def_desc(enq, l) if l is not None else ("place", op_place(t["discr"])) if op_place(t["discr"]) else None
            if d and d[0] == "place" and place_fields(d[1]) and place_fields(d[1])[-1] == ("event::Retries", "current"):
                if s_wo.bb in enq.reachable_blocks(t["otherwise"], cut_blocks=frozenset([bb])) and s_w.bb not in (s_wo.bb,):
                    # reaching the without-deadline route from the nonzero edge
                    if not _reaches_block(enq, t["otherwise"], s_wo.bb, [s_w]) is False:
                        reach_nonzero = _reaches_block(enq, t["otherwise"], s_wo.bb, [s_w])
        R.check(not reach_nonzero, "initial-entries-no-deadline", s_wo, "without_deadline only for None / current == 0",
                "a retried entry (current != 0) can take the without_deadline route: its delay is ignored")
        # `now` is Instant::now() of the same call
        R.check(A.depends_on_call(F, enq, t_w["args"][1], [r"Instant::now$"], fam), "deadline-from-now", s_w, "now = Instant::now() taken in the same call", "the deadline is not stamped with Instant::now()")
    # left_until_retry
    lur = [b for b in F.crate_bodies() if b.impl and b.impl.get("self_adt") == WD and not b.impl.get("trait")
           and b.locals[0] == "std::option::Option<std::time::Duration>"]
    R.check(len(lur) == 1, "left-until-retry/found", None, "", f"{len(lur)} candidates")
    if len(lur) == 1:
        b = lur[0]
        cs = [(s, t) for s, t in b.calls(lambda t: callee_is(t, r"Duration::checked_sub$"))]
        ok = False
        if len(cs) == 1:
            a0 = A.slice_back(b, [cs[0][1]["args"][0]])
            a1 = A.slice_back(b, [cs[0][1]["args"][1]])
            ok = a1.has_call(r"Instant::elapsed$") and not a0.has_call(r"Instant::elapsed$") and (WD, "after") in a0.fields
            rsl = A.slice_back(b, start_locals=[0])
            ok = ok and any(s == cs[0][0] for s, _ in rsl.calls)
        R.check(ok, "left-until-retry/formula", b, "dur.checked_sub(instant.elapsed())", "left_until_retry is not `delay.checked_sub(instant.elapsed())`")
        # ... returned as it is: on the routine's table no row turns a remaining time into "ready" (`None`) or changes it (a tolerance, a rounding)
        rows = D.Deep(F, b, max_paths=100).run()
        # (`a.checked_sub(b)` is modelled by the table engine: None iff a < b, else Some(a - b))
        elapsed = lambda t: D.mentions(t, lambda y: isinstance(y, tuple) and y and y[0] == "call" and re.search(r"Instant::elapsed$", y[1]) is not None)
        ok2, why2 = bool(rows) and not any(p.cut for p in rows), "empty table or a loop"
        n_some = 0
        for p in rows:
            time_left = any(a[0] == "bin" and a[1] == "Lt" and elapsed(a[3]) and o is False for a, o in p.conds)
            if D.is_variant(p.ret, "std::option::Option", "None"):
                if time_left:
                    ok2, why2 = False, "a path answers `None` (ready) although the delay has not elapsed yet: " + " ∧ ".join(f"{D.fmt(b, a)[:50]}={o}" for a, o in p.conds)
            elif D.is_variant(p.ret, "std::option::Option", "Some") and isinstance(p.ret[3][0], tuple) and p.ret[3][0][:2] == ("bin", "Sub") and elapsed(p.ret[3][0][3]) and time_left:
                n_some += 1
            else:
                ok2, why2 = False, f"a path answers {D.fmt(b, p.ret)[:60]}"
        ok2 = ok2 and n_some >= 1
        R.check(ok2, "left-until-retry/returned-as-is", b, "the remaining time is returned unchanged", f"left_until_retry: {why2}: a retry can start before its delay has elapsed")
    # drain predicate keeps entries with time left — decided on its path table (deep.py / sched.py), not on its spelling
    aw, get = role_get(F)
    PT = S.PredTable(F)
    kb = PT.pred
    R.ok("drain-predicate/found", kb, "closure passed to the drain primitive")
    outs = [PT.lur_outcome(p) for p in PT.paths]
    R.check(any(o is not None for o in outs), "drain-predicate/uses-left-until-retry", kb, "readiness = left_until_retry().is_none()", "the drain predicate does not consult left_until_retry")
    for p in PT.true_paths:
        o = PT.lur_outcome(p)
        no_opts = o is None and any(a[0] == "discr" and out == "None" and not PT.is_lur(a[1]) and D.mentions(a[1], lambda x: x == ("arg", 2)) for a, out in p.conds)
        R.check(o == "None" or no_opts, "drain-predicate/ready-is-taken", kb, "drained only with no time left (or no retry options)",
                "an entry is drained although left_until_retry() says there is time left — or without asking: a delayed retry starts before its delay elapsed")
    for p in PT.paths:
        if PT.lur_outcome(p) == "Some":
            R.check(p in PT.false_paths, "drain-predicate/not-ready-is-kept", kb, "time left -> kept in the queue", "entries with time left are drained (started before their delay elapsed)")
            lur_t = [a[1] for a, out in p.conds if a[0] == "discr" and PT.is_lur(a[1])][0]
            left = ("field", ("as", lur_t, "Some"), 0)
            ws = [e for e in p.effects if e[0] == "write" and D.mentions(e[2], lambda x: x == left)]
            ok_min = len(ws) == 1
            if ok_min:
                place, val = ws[0][1], ws[0][2]
                prev = S._read_term(place)
                prev_some = any(a == ("discr", prev) and out == "Some" for a, out in p.conds)
                if prev_some:
                    ok_min = D.mentions(val, lambda x: x[0] == "call" and re.search(r"cmp::min$|Ord::min$", x[1]) and
                                        any(D.mentions(y, lambda z: z == left) for y in x[2]) and any(D.mentions(y, lambda z: z == prev) for y in x[2]))
            R.check(ok_min, "drain-predicate/min-recorded", kb, "minimum remaining time is recorded",
                    "the minimum remaining delay is not recorded (min of the previous minimum and this entry's remaining time)")
    # EXECUTE sleeps on that minimum
    ex = roles.execute(F)
    exfam = roles.family(F, ex)
    sleeps = [(b, s, t) for b in exfam for s, t in b.calls(lambda t: callee_is(t, r"thread::sleep$"))]
    R.check(len(sleeps) == 1, "sleep/found", ex, "", f"{len(sleeps)} thread::sleep sites")
    if len(sleeps) == 1:
        b, s, t = sleeps[0]
        R.check(_depends_on_site(F, b, t["args"][0], aw.poll_site, exfam), "sleep/on-min-deadline", s, "sleeps for the minimum returned by GET", "the idle sleep does not use the deadline returned by GET")
    R.floor(12)


def r5(F, R):
    """The budget an attempt is checked against is the one resolved for *this* scenario: the resolver is called once per
    enqueued scenario with the scenario's own feature, rule and scenario (C18.R5's call-site rule — a necessary condition of
    "retried exactly when ... its retry budget is not exhausted")."""
    from . import c18
    c18.r5(F, R)


def r6_clone(F, R):
    """Retry options travel by value (Copy / Clone) from the resolver to the queue and the attempt: a clone keeps count, delay and deadline."""
    n = roles.check_clone_faithful_table(F, R, r"^runner::basic::RetryOptions|^event::Retries$", "clone-faithful")
    R.floor(3)


def r7(F, R):
    """"... while other scenarios keep running meanwhile": a Serial entry that is only waiting for its retry deadline must not hold
    back the Concurrent queue — when the Serial drain yields nothing GET falls through to the Concurrent drain (= C06.R3)."""
    from . import c06
    c06.r3(F, R)


def r8_setters(F, R):
    """The retry builder methods store / forward their arguments under their own names."""
    roles.check_all_builder_setters(F, R, only=r"^(retries|retry_after|retry_filter|retry_options)$", floor=7)


RULES = [("R1", r1, None), ("R2", r2, None), ("R3", r3, None), ("R4", r4, None), ("R5", r5, None), ("R6", r6_clone, None), ("R7", r7, None), ("R8", r8_setters, None)]
