#!/usr/bin/env python3
"""Extraction of MIR facts from /repo's *current working tree* with the `mirfacts` rustc driver.

`ensure(cfg)` returns the directory holding `<crate>.json` for configuration `cfg`, (re)running
`cargo +nightly check` under the driver whenever the content hash of the inputs changed.  The hash
covers every file the build reads (sources of both crates, manifests, lock file) plus the driver
binary, so an edit to /repo always triggers a fresh extraction; nothing is ever taken from a stale run.
"""
import fcntl
import hashlib
import json
import os
import shutil
import subprocess
import sys
import time

VERIF = os.path.dirname(os.path.dirname(os.path.abspath(__file__)))
REPO = os.environ.get("VERIF_REPO", "/repo")
BUILD = os.environ.get("VERIF_BUILD", os.path.join(VERIF, "build"))
DRIVER_SRC = os.path.join(VERIF, "engine", "mirfacts")
DRIVER_TARGET = os.path.join(BUILD, "mirfacts-target")
DRIVER_BIN = os.path.join(DRIVER_TARGET, "release", "mirfacts")

# configuration name -> cargo feature flags
CFGS = {
    "default": [],
    "all": ["--all-features"],
    "nodefault": ["--no-default-features"],
    "libtest": ["--no-default-features", "--features", "libtest"],
    "json": ["--no-default-features", "--features", "output-json"],
    "junit": ["--no-default-features", "--features", "output-junit"],
    "tracing": ["--no-default-features", "--features", "tracing"],
    "timestamps": ["--no-default-features", "--features", "timestamps"],
    "macros_tracing": ["--features", "tracing"],
}

# floors counted on the pinned tree (bodies per crate); an extraction below the floor is rejected
FLOORS = {
    "default": {"cucumber": 850, "cucumber_codegen": 100},
    "all": {"cucumber": 1150, "cucumber_codegen": 100},
}

ENV_OFFLINE = {"CARGO_NET_OFFLINE": "true"}


def _sysroot():
    return subprocess.check_output(["rustc", "+nightly", "--print", "sysroot"], text=True).strip()


def _hash_tree(h, root, rels):
    for rel in rels:
        p = os.path.join(root, rel)
        if os.path.isfile(p):
            h.update(rel.encode())
            with open(p, "rb") as f:
                h.update(f.read())
        elif os.path.isdir(p):
            for dp, dn, fn in sorted(os.walk(p)):
                dn.sort()
                if "target" in dn:
                    dn.remove("target")
                for n in sorted(fn):
                    fp = os.path.join(dp, n)
                    h.update(os.path.relpath(fp, root).encode())
                    try:
                        with open(fp, "rb") as f:
                            h.update(f.read())
                    except OSError:
                        pass


def build_driver(log=sys.stderr):
    """Build the driver if its sources are newer than the binary."""
    os.makedirs(BUILD, exist_ok=True)
    h = hashlib.sha256()
    _hash_tree(h, DRIVER_SRC, ["Cargo.toml", "rust-toolchain.toml", "src"])
    stamp = os.path.join(BUILD, "mirfacts.stamp")
    want = h.hexdigest()
    if os.path.exists(DRIVER_BIN) and os.path.exists(stamp) and open(stamp).read() == want:
        return DRIVER_BIN
    with open(os.path.join(BUILD, "driver.lock"), "w") as lk:
        fcntl.flock(lk, fcntl.LOCK_EX)
        if os.path.exists(DRIVER_BIN) and os.path.exists(stamp) and open(stamp).read() == want:
            return DRIVER_BIN
        env = dict(os.environ, **ENV_OFFLINE, CARGO_TARGET_DIR=DRIVER_TARGET)
        env.pop("RUSTC_WORKSPACE_WRAPPER", None)
        env.pop("RUSTFLAGS", None)
        r = subprocess.run(["cargo", "+nightly", "build", "--release", "--offline"], cwd=DRIVER_SRC, env=env,
                           stdout=subprocess.PIPE, stderr=subprocess.STDOUT, text=True)
        if r.returncode != 0:
            log.write(r.stdout)
            raise SystemExit("mirfacts driver failed to build")
        with open(stamp, "w") as f:
            f.write(want)
    return DRIVER_BIN


def inputs_hash(cfg, repo=REPO, extra=()):
    h = hashlib.sha256()
    h.update(cfg.encode())
    _hash_tree(h, repo, ["Cargo.toml", "Cargo.lock", "src", "codegen/Cargo.toml", "codegen/src", "README.md",
                         "codegen/README.md"])
    with open(build_driver(), "rb") as f:
        h.update(hashlib.sha256(f.read()).digest())
    for e in extra:
        h.update(str(e).encode())
    return h.hexdigest()[:20]


def ensure(cfg, repo=REPO, log=sys.stderr, manifest_dir=None, crates=("cucumber", "cucumber_codegen"), tag=""):
    """Return the directory with fresh facts for `cfg` of the workspace at `repo`.

    `manifest_dir`: directory whose Cargo workspace is checked (default: repo); used for the zoo crate,
    which path-depends on `repo`.
    """
    driver = build_driver(log)
    flags = CFGS[cfg]
    wd = manifest_dir or repo
    extra = []
    if manifest_dir:
        hh = hashlib.sha256()
        _hash_tree(hh, manifest_dir, ["Cargo.toml", "src"])
        extra.append(hh.hexdigest())
    key = inputs_hash(cfg, repo, extra)
    out = os.path.join(BUILD, "facts", f"{tag}{cfg}-{key}")
    ok_marker = os.path.join(out, "OK")
    if os.path.exists(ok_marker):
        return out
    os.makedirs(os.path.join(BUILD, "facts"), exist_ok=True)
    with open(os.path.join(BUILD, "facts.lock"), "w") as lk:
        fcntl.flock(lk, fcntl.LOCK_EX)
        if os.path.exists(ok_marker):
            return out
        if os.path.isdir(out):
            shutil.rmtree(out)
        os.makedirs(out)
        target = os.path.join(BUILD, "target" + ("-" + tag.rstrip("-") if tag else ""))
        # cargo's freshness cache would skip the wrapper: drop the members' fingerprints
        fp = os.path.join(target, "debug", ".fingerprint")
        if os.path.isdir(fp):
            for d in os.listdir(fp):
                base = d.rsplit("-", 1)[0]
                if base in ("cucumber", "cucumber-codegen", "zoo", "cucumber-verif-zoo"):
                    shutil.rmtree(os.path.join(fp, d), ignore_errors=True)
        env = dict(os.environ, **ENV_OFFLINE)
        env.update({
            "LD_LIBRARY_PATH": _sysroot() + "/lib",
            "RUSTFLAGS": "-Zmir-opt-level=0 -Awarnings",
            "RUSTC_WORKSPACE_WRAPPER": driver,
            "CARGO_TARGET_DIR": target,
            "FACTS_DIR": out,
        })
        t0 = time.time()
        cmd = ["cargo", "+nightly", "check", "--offline", "--workspace"] + flags
        if manifest_dir:
            cmd = ["cargo", "+nightly", "check", "--offline"] + flags
        r = subprocess.run(cmd, cwd=wd, env=env, stdout=subprocess.PIPE, stderr=subprocess.STDOUT, text=True)
        if r.returncode != 0:
            log.write(r.stdout[-6000:])
            raise BuildFailed(f"cargo check failed for cfg={cfg} (the tree does not compile?)")
        for c in crates:
            p = os.path.join(out, c + ".json")
            if not os.path.exists(p):
                log.write(r.stdout[-3000:])
                raise BuildFailed(f"driver wrote no facts for crate {c} (cfg={cfg})")
        with open(ok_marker, "w") as f:
            f.write(json.dumps({"cfg": cfg, "wall_s": round(time.time() - t0, 2), "cmd": cmd}))
        # garbage-collect older fact dirs of the same cfg
        for d in os.listdir(os.path.join(BUILD, "facts")):
            if d.startswith(f"{tag}{cfg}-") and d != os.path.basename(out):
                shutil.rmtree(os.path.join(BUILD, "facts", d), ignore_errors=True)
    return out


class BuildFailed(Exception):
    pass


if __name__ == "__main__":
    cfgs = sys.argv[1:] or ["default", "all"]
    for c in cfgs:
        t = time.time()
        d = ensure(c)
        print(c, d, f"{time.time() - t:.1f}s")


def ensure_zoo(cfg="default", repo=REPO, log=sys.stderr):
    """Facts of the verif-owned zoo crate (/verif/zoo, path-dependency on `repo`) under configuration `cfg`."""
    tag = "zoo-" if repo == REPO else "zooscratch-"
    d = os.path.join(BUILD, tag.rstrip("-"))
    os.makedirs(os.path.join(d, "src"), exist_ok=True)
    with open(os.path.join(VERIF, "zoo", "Cargo.toml.in")) as f:
        toml = f.read().replace("@REPO@", repo)
    cur = open(os.path.join(d, "Cargo.toml")).read() if os.path.exists(os.path.join(d, "Cargo.toml")) else ""
    if cur != toml:
        with open(os.path.join(d, "Cargo.toml"), "w") as f:
            f.write(toml)
    shutil.copy(os.path.join(VERIF, "zoo", "src", "lib.rs"), os.path.join(d, "src", "lib.rs"))
    if not os.path.exists(os.path.join(d, "Cargo.lock")):
        shutil.copy(os.path.join(repo, "Cargo.lock"), os.path.join(d, "Cargo.lock"))
    return ensure(cfg, repo=repo, log=log, manifest_dir=d, crates=("cucumber_verif_zoo",), tag=tag)
