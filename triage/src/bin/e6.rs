// D6 (C14): path-less feature through `writer::Json`: `json::Feature == gherkin::Feature` is false whenever the feature has no
// path, so `mut_or_insert_element` pushes a NEW feature entry for every step / hook event of that feature.
use cucumber::{World as _, given, parser, Parser, cli, writer};
use futures::stream;

#[derive(Debug, Default, cucumber::World)]
struct W;

#[given("a step")]
fn a_step(_: &mut W) {}

struct P;
impl Parser<&'static str> for P {
    type Cli = cli::Empty;
    type Output = stream::Iter<std::vec::IntoIter<parser::Result<gherkin::Feature>>>;
    fn parse(self, input: &'static str, _: cli::Empty) -> Self::Output {
        let f = gherkin::Feature::parse(input, gherkin::GherkinEnv::default()).map_err(|e| panic!("{e}"));
        stream::iter(vec![f])
    }
}

#[derive(Clone, Default)]
struct Buf(std::sync::Arc<std::sync::Mutex<Vec<u8>>>);
impl std::io::Write for Buf {
    fn write(&mut self, b: &[u8]) -> std::io::Result<usize> { self.0.lock().unwrap().extend_from_slice(b); Ok(b.len()) }
    fn flush(&mut self) -> std::io::Result<()> { Ok(()) }
}

#[tokio::main(flavor = "current_thread")]
async fn main() {
    let buf = Buf::default();
    let _ = W::cucumber::<&str>().with_parser(P).with_writer(writer::Json::<_>::new(buf.clone()))
        .with_cli(cli::Opts::<_, _, _, cli::Empty>::default())
        .run("Feature: nopath\n  Scenario: one\n    Given a step\n    Given a step\n    Given a step\n").await;
    let out = String::from_utf8(buf.0.lock().unwrap().clone()).unwrap();
    let n_features = out.matches("\"keyword\":\"Feature\"").count();
    let n_elements = out.matches("\"type\":\"scenario\"").count();
    println!("{out}");
    println!("feature entries for ONE feature: {n_features}; scenario elements for ONE scenario: {n_elements}");
    std::process::exit(if n_features == 1 && n_elements == 1 { 0 } else { 1 });
}
