use std::sync::atomic::{AtomicUsize, Ordering};
use cucumber::{World as _, given, StatsWriter as _};
use futures::FutureExt as _;

#[derive(Debug, Default, cucumber::World)]
struct W;

#[given("a step")]
fn a_step(_: &mut W) {}

static N: AtomicUsize = AtomicUsize::new(0);

#[tokio::main(flavor = "current_thread")]
async fn main() {
    let which = std::env::args().nth(1).unwrap_or_default();
    let c = W::cucumber::<&str>();
    let wr = if which == "after" {
        c.after(|_, _, _, _, _| async { if N.fetch_add(1, Ordering::SeqCst) == 0 { panic!("after hook fails once") } }.boxed_local())
         .with_default_cli().run("/verif/triage/features/hook.feature").await
    } else {
        c.before(|_, _, _, _| async { if N.fetch_add(1, Ordering::SeqCst) == 0 { panic!("before hook fails once") } }.boxed_local())
         .with_default_cli().run("/verif/triage/features/hook.feature").await
    };
    eprintln!("E2[{which}]: attempts={} failed_steps={} hook_errors={} execution_has_failed={} scenarios={:?} steps={:?}",
        N.load(Ordering::SeqCst), wr.failed_steps(), wr.hook_errors(), wr.execution_has_failed(), wr.scenarios_stats(), wr.steps_stats());
}
