//! D5 (C20): a log emitted inside an *after hook* is delivered BEFORE that hook's `Started` event.
use std::sync::{Arc, Mutex};

use cucumber::{World as _, event, given, parser, writer};
use futures::FutureExt as _;

#[derive(Debug, Default, cucumber::World)]
struct W;

#[given("a step")]
fn a_step(_: &mut W) {
    tracing::info!("in-step");
}

#[derive(Clone, Default)]
struct Rec(Arc<Mutex<Vec<String>>>);

impl<Wd: cucumber::World> cucumber::Writer<Wd> for Rec {
    type Cli = cucumber::cli::Empty;

    async fn handle_event(&mut self, ev: parser::Result<cucumber::Event<event::Cucumber<Wd>>>, _: &Self::Cli) {
        use event::{Cucumber, Feature, Hook, Scenario, Step};
        if let Ok(ev) = ev {
            if let Cucumber::Feature(_, Feature::Scenario(_, sc)) = ev.into_inner() {
                let s = match sc.event {
                    Scenario::Hook(ty, Hook::Started) => format!("hook-started:{ty:?}"),
                    Scenario::Hook(ty, Hook::Passed) => format!("hook-passed:{ty:?}"),
                    Scenario::Hook(ty, Hook::Failed(..)) => format!("hook-failed:{ty:?}"),
                    Scenario::Step(_, Step::Started) => "step-started".into(),
                    Scenario::Step(_, Step::Passed(..)) => "step-passed".into(),
                    Scenario::Log(msg) => format!("log:{}", msg.trim()),
                    _ => return,
                };
                self.0.lock().unwrap().push(s);
            }
        }
    }
}

#[tokio::main(flavor = "current_thread")]
async fn main() {
    let rec = Rec::default();
    W::cucumber::<&str>()
        .with_writer(writer::Normalize::new(rec.clone()))
        .after(|_, _, _, _, _| {
            async {
                tracing::info!("in-after-hook");
            }
            .boxed_local()
        })
        .init_tracing()
        .with_default_cli()
        .run("/verif/triage/features/hook.feature")
        .await;
    let evs = rec.0.lock().unwrap().clone();
    for e in &evs {
        eprintln!("E5: {e}");
    }
    let log = evs.iter().position(|e| e.starts_with("log:") && e.contains("in-after-hook"));
    let started = evs.iter().position(|e| e == "hook-started:After");
    eprintln!("E5: after-hook log at {log:?}, Hook::Started(After) at {started:?} => log precedes Started: {}",
              matches!((log, started), (Some(l), Some(s)) if l < s));
}
