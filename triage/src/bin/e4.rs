use cucumber::{World as _, given, parser, Parser, cli, writer};
use futures::stream;

#[derive(Debug, Default, cucumber::World)]
struct W;

#[given("a step")]
fn a_step(_: &mut W) {}

struct P;
impl Parser<&'static str> for P {
    type Cli = cli::Empty;
    type Output = stream::Iter<std::vec::IntoIter<parser::Result<gherkin::Feature>>>;
    fn parse(self, input: &'static str, _: cli::Empty) -> Self::Output {
        let f = gherkin::Feature::parse(input, gherkin::GherkinEnv::default()).map_err(|e| panic!("{e}"));
        stream::iter(vec![f])
    }
}

#[tokio::main(flavor = "current_thread")]
async fn main() {
    let _ = W::cucumber::<&str>().with_parser(P).with_writer(writer::Libtest::<W, _>::new(std::io::stdout()))
        .with_cli(cli::Opts::<_, _, _, cli::Empty>::default())
        .run("Feature: nopath\n  Scenario: one\n    Given a step\n    Given a step\n").await;
}
