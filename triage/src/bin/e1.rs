use std::{pin::Pin, task::{Context, Poll}};
use cucumber::{World as _, given, parser, Parser, cli};
use futures::{Stream, stream};

#[derive(Debug, Default, cucumber::World)]
struct W;

#[given("a step")]
fn a_step(_: &mut W) {}

struct Lazy<S> { inner: S, pend: bool }
impl<S: Stream + Unpin> Stream for Lazy<S> {
    type Item = S::Item;
    fn poll_next(mut self: Pin<&mut Self>, cx: &mut Context<'_>) -> Poll<Option<S::Item>> {
        if !self.pend { self.pend = true; cx.waker().wake_by_ref(); return Poll::Pending; }
        self.pend = false;
        Pin::new(&mut self.inner).poll_next(cx)
    }
}
struct P;
impl Parser<&'static str> for P {
    type Cli = cli::Empty;
    type Output = Lazy<stream::Iter<std::vec::IntoIter<parser::Result<gherkin::Feature>>>>;
    fn parse(self, input: &'static str, _: cli::Empty) -> Self::Output {
        let f = gherkin::Feature::parse_path(input, gherkin::GherkinEnv::default()).map_err(Into::into);
        Lazy { inner: stream::iter(vec![f]), pend: false }
    }
}

#[tokio::main(flavor = "current_thread")]
async fn main() {
    let fut = W::cucumber::<&str>().with_parser(P).with_default_cli().run("/verif/triage/features/lazy.feature");
    // run on a thread so we can detect a spin
    let (tx, rx) = std::sync::mpsc::channel();
    std::thread::spawn(move || { std::thread::sleep(std::time::Duration::from_secs(5)); if rx.try_recv().is_err() { eprintln!("E1: HANG (no completion after 5s)"); std::process::exit(3); } });
    let _ = fut.await;
    tx.send(()).unwrap();
    eprintln!("E1: completed");
}
