use std::sync::atomic::{AtomicUsize, AtomicBool, Ordering};
use std::time::Duration;
use cucumber::{World as _, given};

#[derive(Debug, Default, cucumber::World)]
struct W;

static N: AtomicUsize = AtomicUsize::new(0);
static CONC_RUNNING: AtomicUsize = AtomicUsize::new(0);
static OVERLAP: AtomicBool = AtomicBool::new(false);

#[given("serial fails once")]
async fn s(_: &mut W) {
    if CONC_RUNNING.load(Ordering::SeqCst) > 0 { OVERLAP.store(true, Ordering::SeqCst); eprintln!("E3: serial attempt started while {} concurrent scenario(s) running", CONC_RUNNING.load(Ordering::SeqCst)); }
    tokio::time::sleep(Duration::from_millis(50)).await;
    if N.fetch_add(1, Ordering::SeqCst) == 0 { panic!("serial fails once") }
}

#[given(expr = "concurrent sleeps {int} ms")]
async fn c(_: &mut W, ms: u64) {
    CONC_RUNNING.fetch_add(1, Ordering::SeqCst);
    tokio::time::sleep(Duration::from_millis(ms)).await;
    CONC_RUNNING.fetch_sub(1, Ordering::SeqCst);
}

#[tokio::main(flavor = "current_thread")]
async fn main() {
    let _ = W::cucumber::<&str>().with_default_cli().run("/verif/triage/features/serial.feature").await;
    eprintln!("E3: overlap={}", OVERLAP.load(Ordering::SeqCst));
}
