Feature: hook
  @retry(1)
  Scenario: one
    Given a step
