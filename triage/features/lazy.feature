Feature: lazy
  Scenario: one
    Given a step
