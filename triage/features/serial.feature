Feature: serial
  @serial @retry(1).after(300ms)
  Scenario: S
    Given serial fails once
  Scenario: C1
    Given concurrent sleeps 100 ms
  Scenario: C2
    Given concurrent sleeps 500 ms
  Scenario: C3
    Given concurrent sleeps 1500 ms
