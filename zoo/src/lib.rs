//! A zoo of annotated step functions (C19).  Never executed: the `mirfacts` driver exports the MIR of the macro
//! expansion of this crate and `engine/rules/c19.py` checks the expansion against the table in `zoo/TABLE.json`.
#![allow(dead_code, unused_variables, clippy::unused_async)]

use cucumber::{Parameter, World, gherkin::Step, given, then, when};

#[derive(Debug, Default, World)]
pub struct Zoo {
    pub n: i64,
}

/// Custom parameter used in expressions.
#[derive(Debug, Parameter)]
#[param(regex = "cat|dog", name = "animal")]
pub enum Animal {
    Cat,
    Dog,
}

impl std::str::FromStr for Animal {
    type Err = String;

    fn from_str(s: &str) -> Result<Self, String> {
        match s {
            "cat" => Ok(Self::Cat),
            "dog" => Ok(Self::Dog),
            other => Err(format!("unknown animal {other}")),
        }
    }
}

#[given("a plain literal step")]
fn lit_sync_unit(w: &mut Zoo) {
    w.n += 1;
}

#[when("literal with (parens) and a . dot+")]
async fn lit_async_unit(w: &mut Zoo) {
    w.n += 2;
}

#[then("a literal returning result")]
fn lit_sync_result(w: &mut Zoo) -> Result<(), String> {
    Err("boom".to_owned())
}

#[given(regex = r"^(\d+) cucumbers and (\S+) names$")]
fn re_two_typed(w: &mut Zoo, count: u32, name: String) {
    w.n += i64::from(count);
}

#[when(regex = r"^(\d+) then (\d+) then (\d+)$")]
async fn re_three_async(w: &mut Zoo, a: i8, b: u64, c: usize) {
    w.n += 3;
}

#[then(regex = r"^slice of (\d+) (\d+)$")]
fn re_slice(w: &mut Zoo, nums: &[u16]) {
    w.n += nums.len() as i64;
}

#[given(regex = r"^with step (\d+)$")]
fn re_with_step(w: &mut Zoo, n: u8, #[step] s: &Step) {
    w.n += i64::from(n);
}

#[when("literal with step arg")]
fn lit_with_step(w: &mut Zoo, step: &Step) {
    w.n += 1;
}

#[then(expr = "{int} animals of kind {animal}")]
fn expr_custom(w: &mut Zoo, n: i32, kind: Animal) {
    w.n += i64::from(n);
}

#[given(expr = "{word} is {float}")]
async fn expr_async_result(w: &mut Zoo, word: String, f: f64) -> Result<(), std::num::ParseIntError> {
    "x".parse::<i32>().map(drop)
}

#[given("stacked one")]
#[when(regex = r"^stacked (\d+)?$")]
#[then("stacked three")]
fn stacked(w: &mut Zoo) {
    w.n += 1;
}

#[then(regex = r"^slice with step (\w+) (\w+)$")]
fn re_slice_with_step(w: &mut Zoo, words: &[String], #[step] s: &Step) {
    w.n += words.len() as i64;
}

#[when(expr = "there is/are (a )cucumber(s) in the basket")]
fn expr_no_params(w: &mut Zoo) {
    w.n += 1;
}

/// A `Result` spelled through a type alias whose name is not `Result`: still a fallible step.
pub type Fallible = Result<(), String>;

#[given("a step returning an aliased result")]
fn alias_sync_result(w: &mut Zoo) -> Fallible {
    w.n += 1;
    Ok(())
}

#[when(regex = r"^an async step (\d+) returning an aliased result$")]
async fn alias_async_result(w: &mut Zoo, n: i64) -> Fallible {
    w.n += n;
    Ok(())
}

#[then("a step returning an io result")]
fn io_result(w: &mut Zoo) -> std::io::Result<()> {
    w.n += 1;
    Ok(())
}

/// A parameter whose regex has significant edge whitespace and an empty alternative (optional negation idiom).
#[derive(Debug, Parameter)]
#[param(regex = " not|", name = "negation")]
pub struct Negation(bool);

impl std::str::FromStr for Negation {
    type Err = String;

    fn from_str(s: &str) -> Result<Self, String> {
        Ok(Self(!s.is_empty()))
    }
}

/// A parameter whose regex ends in an escaped `$` and starts with a `^`-free alternative; default (lower-cased) name.
#[derive(Debug, Parameter)]
#[param(regex = r"€|£|\$")]
pub struct Currency(char);

impl std::str::FromStr for Currency {
    type Err = String;

    fn from_str(s: &str) -> Result<Self, String> {
        s.chars().next().map(Self).ok_or_else(|| "empty".to_owned())
    }
}

#[then(expr = "the light is{negation} on and costs {currency}")]
fn expr_edge_params(w: &mut Zoo, neg: Negation, cur: Currency) {
    w.n += i64::from(neg.0) + i64::from(cur.0 as u32);
}
